"""C09 - histories on ONE module object (PadVariable, ChunkBySlices, PadMaskedSequence, RandomShift).

A history is a list of 2-3 steps; a step optionally reassigns a public attribute (mode, value /
padding_value, batch_first) or switches train/eval, then calls the SAME module object with a batch of its
own shape (N, T), with ``lens`` given or omitted (ChunkBySlices).  Every call is judged against the
single-sequence oracle (= what a fresh module / the functional must give for that call alone); RandomShift
is in addition compared with the functional fed the same scripted draws.  Results kept from earlier steps
must not change afterwards (no aliasing with internal buffers) and no argument may be modified.
"""

import itertools
import random

import torch

import pydrobert.torch.functional as F
import pydrobert.torch.modules as M

from mc.guards import Kept
from mc.seams import ScriptedRandom, ONE_M
from mc.oracles import padding as O

KINDS = ("ChunkBySlices", "PadVariable", "PadMaskedSequence", "RandomShift")
VALUE, VALUE2 = -7.5, -2.25
REST = (2,)
NEXT_MODE = {"constant": "replicate", "replicate": "reflect", "reflect": "constant"}
DRAWS = (0.75, ONE_M, 0.25, 0.5)


def make_x(seed, N, T, k):
    n = N * T * REST[0]
    vals = list(range(1, n + 1))
    random.Random(f"{seed}/hist{k}/{N}/{T}").shuffle(vals)
    return torch.tensor(vals, dtype=torch.float32).view((N, T) + REST)


def alphabet(kind, reduced):
    """Steps (N, T, lens_given, setop).  setop: None | 'mode' | 'value' | 'toggle'."""
    Ts = (2, 4) if kind == "RandomShift" else ((2, 5) if reduced else (2, 3, 5))
    lens_opts = (False, True) if kind == "ChunkBySlices" else (True,)
    if reduced:
        sets = (None, "toggle") if kind == "RandomShift" else (None,)
    elif kind == "PadMaskedSequence":
        sets = (None, "toggle", "value")
    elif kind == "RandomShift":
        sets = (None, "toggle", "mode", "value")
    else:
        sets = (None, "mode", "value")
    return [(N, T, lg, s) for N in (1, 2) for T in Ts for lg in lens_opts for s in sets]


def inits(kind):
    if kind == "PadMaskedSequence":
        return [{"batch_first": False}, {"batch_first": True}]
    return [{"mode": m} for m in O.MODES]


def fresh(kind, st):
    if kind == "PadVariable":
        return M.PadVariable(st["mode"], st["value"])
    if kind == "ChunkBySlices":
        return M.ChunkBySlices(st["mode"], st["value"])
    if kind == "PadMaskedSequence":
        return M.PadMaskedSequence(st["batch_first"], st["value"])
    layer = M.RandomShift(st.get("prop_arg", 1.0), st["mode"], st["value"])
    layer.train(st["training"])
    return layer


def apply_set(kind, module, st, setop):
    if setop is None:
        return
    if setop == "mode":
        st["mode"] = NEXT_MODE[st["mode"]]
        module.mode = st["mode"]
    elif setop == "value":
        st["value"] = VALUE2 if st["value"] != VALUE2 else VALUE
        if kind == "PadMaskedSequence":
            module.padding_value = st["value"]
        else:
            module.value = st["value"]
    elif kind == "PadMaskedSequence":
        st["batch_first"] = not st["batch_first"]
        module.batch_first = st["batch_first"]
    else:
        st["training"] = not st["training"]
        module.train(st["training"])


def rows_for(kind, mode, N, T, lens_given, k):
    """Row configurations legal for the mode that reach the first and the last frame and beyond."""
    rows = []
    for n in range(N):
        L = max(1, T - n) if lens_given else T
        can = mode != "reflect" or L >= 2
        alt = (k + n) % 2
        if kind == "PadVariable":
            if alt == 0:
                rows.append((L, 1 if can else 0, (L - 1) if mode == "reflect" else T + 1))
            else:
                rows.append((L, 0, min(1, L - 1) if mode == "reflect" else 2))
        else:
            lo, hi = (-1, L + 1) if can else (0, L)
            rows.append((L, lo, hi) if alt == 0 else (L, L - 1, hi))
    return rows


def compare_rows(out, out_lens, x, exp):
    N = len(exp)
    if out.dim() != x.dim() or out.size(0) != N or tuple(out.shape[2:]) != tuple(x.shape[2:]) or out.dtype != x.dtype:
        return [("wrong-shape-or-dtype", {"shape": list(out.shape)})]
    outl = out.tolist()
    lensl = None if out_lens is None else out_lens.tolist()
    for n in range(N):
        e = exp[n]
        if lensl is not None and lensl[n] != len(e):
            return [("wrong-length", {"row": n, "expected": len(e), "observed": lensl[n]})]
        if out.size(1) < len(e):
            return [("output-shorter-than-length", {"row": n, "expected": len(e), "T_out": out.size(1)})]
        if outl[n][: len(e)] != e:
            return [("wrong-valid-part", {"row": n, "expected": e, "observed": outl[n][: len(e)]})]
    return []


def scripted(k):
    def uniform(shape, dtype, device, label, chooser):
        n = 1
        for s in shape:
            n *= s
        return torch.tensor([DRAWS[(i + k) % len(DRAWS)] for i in range(n)], dtype=torch.float64).to(dtype).view(shape)

    return uniform


def guarded(probs, fn, *args):
    """fn(*args), checking that no tensor argument was modified by the call."""
    before = [a.clone() if isinstance(a, torch.Tensor) else None for a in args]
    res = fn(*args)
    for i, (a, b) in enumerate(zip(args, before)):
        if b is not None and not torch.equal(a, b):
            probs.append(("argument-modified-in-place", {"arg_index": i}))
    return res


def step_call(kind, module, st, step, k, seed):
    """One call on the reused module.  Returns (results, problems, description)."""
    N, T, lens_given, _ = step
    x = make_x(seed, N, T, k)
    xl = x.tolist()
    x0 = x.clone()
    desc = {"N": N, "T": T, "lens_given": lens_given, "state": dict(st)}
    probs = []
    if kind in ("PadVariable", "ChunkBySlices"):
        rows = rows_for(kind, st["mode"], N, T, lens_given, k)
        desc["rows"] = rows
        item = O.full(REST, st["value"])
        lens = torch.tensor([r[0] for r in rows])
        if kind == "PadVariable":
            pad = torch.tensor([[r[1] for r in rows], [r[2] for r in rows]])
            exp = [O.pad_seq(xl[n][: r[0]], r[1], r[2], st["mode"], item) for n, r in enumerate(rows)]
            out, out_lens = guarded(probs, module, x, lens, pad), None
        else:
            slices = torch.tensor([[r[1], r[2]] for r in rows])
            exp = [O.chunk_seq(xl[n][: r[0]], r[1], r[2], st["mode"], item) for n, r in enumerate(rows)]
            out, out_lens = guarded(probs, module, x, slices, lens) if lens_given else guarded(probs, module, x, slices)
        probs += compare_rows(out, out_lens, x, exp)
        results = (out, out_lens)
    elif kind == "PadMaskedSequence":
        mask = [[(t + n + k) % 2 == 0 if k % 2 else t != T - 1 - (n % T) for t in range(T)] for n in range(N)]
        desc["mask"] = mask
        m = torch.tensor(mask, dtype=torch.bool).view(N, T)
        xin, min_ = (x, m) if st["batch_first"] else (x.transpose(0, 1), m.t())
        out, lens = guarded(probs, module, xin, min_)
        item = O.full(REST, st["value"])
        if tuple(out.shape) != tuple(xin.shape) or tuple(lens.shape) != (N,):
            probs.append(("wrong-shape-or-dtype", {"out": list(out.shape), "lens": list(lens.shape)}))
        else:
            outl = (out if st["batch_first"] else out.transpose(0, 1)).tolist()
            for n in range(N):
                erow, ecount = O.compact(xl[n], mask[n], item)
                if lens[n].item() != ecount:
                    probs.append(("wrong-length", {"row": n, "expected": ecount, "observed": lens[n].item()}))
                    break
                if outl[n] != erow:
                    probs.append(("wrong-row", {"row": n, "expected": erow, "observed": outl[n]}))
                    break
        results = (out, lens)
    else:  # RandomShift (prop 1.0 unless the state says otherwise)
        props = st.get("props", ("1.0", "1.0"))
        lens_l = [max(1, T - n) for n in range(N)]
        lens = torch.tensor(lens_l)
        desc["lens"] = lens_l
        with ScriptedRandom(None, uniform=scripted(k)):
            out, out_lens = guarded(probs, module, x, lens)
        if not st["training"]:
            if not (torch.equal(out, x0) and out_lens.tolist() == lens_l):
                probs.append(("eval-mode-not-identity", {"out_lens": out_lens.tolist()}))
        else:
            with ScriptedRandom(None, uniform=scripted(k)):
                fo, fl = F.random_shift(x0.clone(), lens.clone(), (float(props[0]), float(props[1])), st["mode"],
                                        st["value"], True)
            item = O.full(REST, st["value"])
            ol = out_lens.tolist()
            if ol != fl.tolist():
                probs.append(("differs-from-functional-with-same-draws", {"out_lens": ol, "functional": fl.tolist()}))
            else:
                outl, fol = out.tolist(), fo.tolist()
                for n in range(N):
                    obs = outl[n][: ol[n]]
                    if obs != fol[n][: ol[n]]:
                        probs.append(("differs-from-functional-with-same-draws",
                                      {"row": n, "observed": obs, "functional": fol[n][: ol[n]]}))
                        break
                    if ol[n] < lens_l[n] or not O.shift_explanations(xl[n][: lens_l[n]], obs, props, st["mode"], item):
                        probs.append(("not-a-bounded-shift-of-the-input", {"row": n, "observed": obs}))
                        break
        results = (out, out_lens)
    return results, probs, desc


def is_constant(kind, setop):
    """mode, value, padding_value and batch_first are listed in the modules' ``__constants__``: reassigning
    them on a live module is not a supported way to reconfigure it (only train/eval is a live switch)."""
    return setop in ("mode", "value") or (setop == "toggle" and kind == "PadMaskedSequence")


def run_history(kind, init, steps, seed, counts=None):
    """Runs the steps on one module object; returns [(step index, symptom, detail)].  A step that reassigns
    one of the module's ``__constants__`` is executed and COUNTED in ``counts`` (honoured / ignored), never
    judged, and ends the history (the object's configuration is undefined from there on)."""
    st = {"mode": init.get("mode", "constant"), "value": VALUE, "batch_first": init.get("batch_first", False),
          "training": True}
    module = fresh(kind, st)
    kept = []
    problems = []
    for k, step in enumerate(steps):
        apply_set(kind, module, st, step[3])
        constant = is_constant(kind, step[3])
        try:
            results, probs, desc = step_call(kind, module, st, tuple(step), k, seed)
        except Exception as e:  # every step is a legal call
            if constant:
                probs = [("raises", {})]
            else:
                problems.append((k, "raises", {"type": type(e).__name__, "error": str(e)[-300:], "state": dict(st)}))
                break
        if constant:
            if counts is not None:
                counts["constants_reassigned_ignored" if probs else "constants_reassigned_honoured"] += 1
            break
        for sym, det in probs:
            problems.append((k, sym, dict(det, call=desc)))
        for j, kp in enumerate(kept):
            try:
                kp.check()
            except AssertionError as e:
                problems.append((k, "earlier-result-changed", {"kept_from_step": j, "error": str(e)}))
        if not (kind == "RandomShift" and not st["training"]):  # eval mode returns the input itself
            kept.append(Kept(*results))
        if problems:
            break
    return problems


def histories(kind, tier):
    full = alphabet(kind, False)
    red = alphabet(kind, True)
    for h in itertools.product(full, repeat=2):
        yield h
    for h in itertools.product(full if tier == "thorough" else red, repeat=3):
        yield h


def hist_pass(ctx, kind, init, tier, seed, i=0, of=1):
    n = 0
    for idx, steps in enumerate(histories(kind, tier)):
        if idx % of != i:
            continue
        n += 1
        changed = sorted({name for name, a, b in (("N", steps[0][0], steps[-1][0]), ("T", steps[0][1], steps[-1][1]))
                          if a != b} | {s[3] for s in steps[1:] if s[3]})
        ctx.case(len(steps), 1 if changed or len({s[:3] for s in steps}) > 1 else 0)
        ctx.count("history_calls_on_reused_modules", len(steps))
        problems = run_history(kind, init, steps, seed, ctx.counters)
        if not problems:
            if n % 37 == 0:
                ctx.outcome(["hist", kind, init, steps])
            continue
        k, sym, det = problems[0]
        prev, cur = steps[k - 1] if k else None, steps[k]
        sig = {"api": kind, "symptom": "object-history: " + sym, "first_call": k == 0}
        if k:
            sig.update({"T_changed": prev[1] != cur[1], "N_changed": prev[0] != cur[0],
                        "lens_omitted": not cur[2], "attribute_set": cur[3] or "none"})
        ctx.violation(sig, {"part": "hist", "kind": kind, "init": init, "steps": [list(s) for s in steps[: k + 1]],
                            "seed": seed}, dict(det, step=k))
    if i == 0 and init == inits(kind)[0]:
        h = next(itertools.islice(histories(kind, tier), len(alphabet(kind, False)) + 1, None))
        ctx.sample({"api": kind, "kind": "object history (N, T, lens_given, attribute reassigned before the call)",
                    "init": init, "steps": [list(s) for s in h]})


def replay(ctx, case):
    ctx.case(len(case["steps"]), 1)
    problems = run_history(case["kind"], case["init"], [tuple(s) for s in case["steps"]], case["seed"])
    for k, sym, det in problems[:1]:
        steps = case["steps"]
        prev, cur = steps[k - 1] if k else None, steps[k]
        sig = {"api": case["kind"], "symptom": "object-history: " + sym, "first_call": k == 0}
        if k:
            sig.update({"T_changed": prev[1] != cur[1], "N_changed": prev[0] != cur[0],
                        "lens_omitted": not cur[2], "attribute_set": cur[3] or "none"})
        ctx.violation(sig, case, dict(det, step=k))
