"""Harness language model for C07: a history-dependent table LM.

State (threaded through ``prev``): ``code`` = integer code of the tokens consumed so far
(bijective base-V numeration, see mc.oracles.seqscores.code_of), ``consumed`` = how many tokens
were consumed, ``row`` = which table a batch element reads (from ``initial_state``; makes batch
elements distinguishable so that a mix-up of batch/sample dimensions changes the scores).
The emitted scores are *un-normalised* seed-valued logits: both RandomWalk and
sequence_log_probs have to apply the log-softmax themselves.
"""

import random
from typing import Dict, Tuple

import torch

from pydrobert.torch.modules import SequentialLanguageModel

from mc.oracles import seqscores as O


class TableLM(SequentialLanguageModel):
    def __init__(self, V, depth, seed, rows=2, poison_eos=None, grad=False):
        super().__init__(V)
        rng = random.Random(1000003 * seed + 101 * V + depth)
        self.depth = depth
        self.ncodes = O.num_codes(V, depth)
        tab = [[[round(rng.uniform(-2.0, 2.0), 3) for _ in range(V)] for _ in range(self.ncodes)]
               for _ in range(rows)]
        self.poisoned = 0
        if poison_eos is not None:
            # scores after a history that already contains the end-of-sequence token are outside the valid
            # region of every path: they are arbitrary, also non-finite (rotating: finite garbage, all -inf,
            # nan in one class / everywhere, +inf in one class / everywhere).  No reference ever reads them.
            ninf, nan, pinf = float("-inf"), float("nan"), float("inf")
            for code in range(self.ncodes):
                if poison_eos not in O.prefix_of(code, V):
                    continue
                for r in range(rows):
                    kind = (code + r) % 6
                    if kind == 1:
                        tab[r][code] = [ninf] * V
                    elif kind == 2:
                        tab[r][code][code % V] = nan
                    elif kind == 3:
                        tab[r][code] = [nan] * V
                    elif kind == 4:
                        tab[r][code][code % V] = pinf
                    elif kind == 5:
                        tab[r][code] = [pinf] * V
                    self.poisoned += kind != 0
        self.register_buffer("table", torch.tensor(tab, dtype=torch.float32))
        # the oracle reads exactly the float32 values the implementation sees
        self.table_list = self.table.double().tolist()
        if grad:  # the scores handed to the library are attached to the autograd graph
            self.table.requires_grad_(True)
        self.protocol_errors = []
        self.calls = 0
        self.fail_next = 0  # harness switch: the next call raises (an environment failure the caller catches)

    def update_input(self, prev: Dict[str, torch.Tensor], hist: torch.Tensor) -> Dict[str, torch.Tensor]:
        if "code" in prev:
            return prev
        N = hist.size(1)
        new = dict(prev)
        row = prev.get("row")
        if row is None:
            row = torch.zeros(N, dtype=torch.long)
        elif row.numel() != N:
            raise RuntimeError(f"TableLM: initial_state['row'] has {row.numel()} elements, batch has {N}")
        new["row"] = row
        new["code"] = torch.zeros(N, dtype=torch.long)
        new["consumed"] = torch.zeros(N, dtype=torch.long)
        return new

    def calc_idx_log_probs(
        self, hist: torch.Tensor, prev: Dict[str, torch.Tensor], idx: torch.Tensor
    ) -> Tuple[torch.Tensor, Dict[str, torch.Tensor]]:
        self.calls += 1
        if self.fail_next:
            self.fail_next -= 1
            raise RuntimeError("TableLM: injected failure")
        if idx.dim() != 0:
            if idx.numel() != 1:
                raise NotImplementedError("TableLM: per-element idx")
            idx = idx.reshape(())
        i = int(idx.item())
        V = self.vocab_size
        code, consumed = prev["code"], prev["consumed"]
        if bool((consumed != max(i - 1, 0)).any()):
            self.protocol_errors.append(f"idx={i} but state consumed {consumed.tolist()} tokens")
        if i > 0:
            tok = hist[i - 1]
            if bool(((tok < 0) | (tok >= V)).any()):
                self.protocol_errors.append(f"out-of-vocabulary history token {tok.tolist()} at {i - 1}")
                tok = tok.clamp(0, V - 1)
            code = code * V + tok + 1
            consumed = consumed + 1
        if bool((code >= self.ncodes).any()):
            self.protocol_errors.append(f"history longer than the table depth {self.depth}")
            code = code.clamp_max(self.ncodes - 1)
        new = dict(prev)
        new["code"] = code
        new["consumed"] = consumed
        return self.table[prev["row"], code], new


class ScriptTableLM(SequentialLanguageModel):
    """TorchScript-compatible twin of TableLM (same table, same state threading, no bookkeeping):
    RandomWalk is scripted together with its language model, as the repository's own tests do."""

    def __init__(self, V, depth, seed, rows=2, poison_eos=None):
        super().__init__(V)
        ref = TableLM(V, depth, seed, rows, poison_eos)
        self.ncodes = ref.ncodes
        self.register_buffer("table", ref.table.clone())
        self.table_list = ref.table_list

    @torch.jit.export
    def update_input(self, prev: Dict[str, torch.Tensor], hist: torch.Tensor) -> Dict[str, torch.Tensor]:
        if "code" in prev:
            return prev
        N = hist.size(1)
        new: Dict[str, torch.Tensor] = {}
        for k, v in prev.items():
            new[k] = v
        if "row" not in new:
            new["row"] = torch.zeros(N, dtype=torch.long, device=hist.device)
        new["code"] = torch.zeros(N, dtype=torch.long, device=hist.device)
        return new

    def calc_idx_log_probs(
        self, hist: torch.Tensor, prev: Dict[str, torch.Tensor], idx: torch.Tensor
    ) -> Tuple[torch.Tensor, Dict[str, torch.Tensor]]:
        i = int(idx.item())
        code = prev["code"]
        if i > 0:
            tok = hist[i - 1].clamp(0, self.vocab_size - 1)
            code = code * self.vocab_size + tok + 1
        code = code.clamp_max(self.ncodes - 1)
        new: Dict[str, torch.Tensor] = {}
        for k, v in prev.items():
            new[k] = v
        new["code"] = code
        return self.table[prev["row"], code], new
