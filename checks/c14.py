"""C14 - bucket batch sampler, data loaders, collation, context windows (E1 + E3)."""

import contextlib
import itertools
import os

import torch

import pydrobert.torch.data as data

from mc.runner import Ctx
from mc.seams import SimulatedGroup, ListingPolicy, LISTING_POLICIES
from mc.oracles import samplers as O
from checks import _c14_common as C

PROP = "C14"
LEVEL = "exploration"
RULE = (
    "(a) BucketBatchSampler: every assignment of n <= 6 (thorough 7) indices to B <= 3 buckets x every size "
    "map in {1,2,3}^B x every sampler order (all permutations for n <= 5 (6), identity/reversed/rotated "
    "above) x drop_incomplete, iterated twice, then once more interleaved (a pass abandoned after one batch, "
    "a full pass in between, the first pass resumed) and the batch objects of the first pass re-read at the end; "
    "bucket ids 0..B-1 and, for n <= 4, strings, tuples and the negative ints -1,-2,3 (hash(-1) == hash(-2)); "
    "clauses of the property checked one by one, plus the documented yield order where docs (hash order) and "
    "code (id order) agree, i.e. for non-negative int ids. (b) Spect/Lang loaders on real tmpfs directories whose every cell encodes "
    "its utterance: every length multiset over {1,2,3}, n in 0..5 utterances, in a fixed non-monotone "
    "arrangement (thorough: every length tuple for n <= 4); 'structure' pass = batch_size 1..3 x "
    "num_length_buckets 1..3 x size_batch_by_length x drop_last x {sequential, shuffle seed 0, 1}; "
    "'collation' pass = sort_batch x batch_first x suppress_alis x suppress_uttids x tokens_only x "
    "directory variant {feat+ali+2-D ref, feat+1-D ref, feat only} over 4 (2 for the last two variants) batching settings; 'joint' pass = "
    "full cross product for n <= 2 (thorough: for every corpus, two epochs). Per loader: len() before each of epochs "
    "0..2 == batches yielded, fresh loaders at init_epoch=k deliver the same batches as the history "
    "(thorough structure pass: also k=0 and rewinding through the epoch attribute), "
    "every row cut back to its size == stored tensor, padding == pad value, ids on their rows, batches "
    "pure w.r.t. the reference length classes, sizes/trailing/cover clauses (collation and joint passes: one epoch, "
    "delivered twice by two loaders). (c) extract_window for every "
    "(T<=4, left<=2, right<=2, reverse, centre) and ContextWindowDataLoader on directories against the "
    "edge-replicating reference; the three *_seq_to_batch functions called directly with None patterns. "
    "(d) loaders inside simulated process groups W in {2,3}, every rank, modes raise/uneven/ignore x drop_last x "
    "{sequential, shuffle seeds 0,1} x num_length_buckets 1..3 x size_batch_by_length: quick = 4 corpora with ties "
    "(3,4,5,6 utterances), batch_size 1..2, two epochs + fresh loader; thorough = every multiset corpus, three epochs. "
    "(e) object histories: in the structure pass and for rank 0 of pass (d) a pass is abandoned after its first "
    "batch, len() asked, a second pass run and the first resumed - both must equal epoch 0 of the history. "
    "(g) disturbances in the middle of an epoch, on ONE loader object (4 tie corpora, bucketed x shuffle seeds 0,1 x "
    "batch_size 1..2 x drop_last x {no group, both ranks of a simulated group of 2}; thorough adds unbucketed, "
    "sequential, more corpora and groups): for every prefix length k of epoch 0 and every disturbance in {len(loader), "
    "loader.epoch read, sampler.get_samples_for_epoch(epoch / epoch+1) consumed, a second iter(loader) abandoned after "
    "0 / 1 batches}: take k batches, disturb, finish the epoch - the batches must equal a fresh loader's epoch 0. "
    "(f) the *_seq_to_batch functions also with inputs that require grad / are non-contiguous offset views, inputs "
    "compared with their values afterwards, the previous call's result re-read after the next call; loaders and "
    "window loaders constructed and iterated under torch.set_default_dtype(float64). "
    "(g) LISTING ORDER (environment answer): every corpus of 2-3 utterances and one of 5, 40 batching configurations and "
    "a slice of the collation flags, loaded with os.listdir / os.scandir answering in each of five non-sorted orders "
    "(with the sorted one: every permutation of a <= 3-entry directory): all clauses as before and the same batches as "
    "under the stock listing. "
    "Distinct by construction within a pass (a configuration met by two passes is run with different "
    "histories); non-trivial = at least 2 utterances/indices."
)
ASSUMPTIONS = [
    "small scope: lengths 1..3 (4 for windows), <= 5 utterances, 2 filters, batch_size <= 3, <= 3 buckets",
    "num_workers=0; real DataLoader worker processes are the trusted base",
    "length classes of the reference are the documented quantile cut (runs of N // num_length_buckets sorted "
    "lengths, equal lengths share a class; class batch size = batch_size, or the documented greatest x with "
    "x * class-max <= corpus-max * batch_size when sizing by length)",
    "collation flags are independent of the batching structure except through the data set items; the joint "
    "pass covers the interaction completely only for n <= 2 in the quick tier",
    "process groups are simulated at the four torch.distributed queries (reduced pass in the quick tier, full in thorough)",
    "the value len(loader) reports in the middle of a pass is not constrained (only asked, as a disturbance)",
    "a pass is bound to its epoch by its first delivered batch (iterators are lazy), so a second pass is only used "
    "as a disturbance after at least one batch of the first",
    "the order of left-over batches is compared only for non-negative int bucket ids (docs say hash order, code id order)",
]
BUDGET_S = {"quick": 240, "thorough": 2400}

FLAGS_BASE = dict(sort_batch=False, batch_first=True, suppress_alis=True, suppress_uttids=False, tokens_only=True)


# ------------------------------------------------------------------------ spaces ----------
def _corpora(tier, nmax=5):
    out = []
    for n in range(nmax + 1):
        if tier == "thorough" and n <= 4:
            out.extend(itertools.product((1, 2, 3), repeat=n))
        else:
            out.extend(C.zigzag(ms) for ms in itertools.combinations_with_replacement((1, 2, 3), n))
    return out


def _batchings(seeds=(None, 0, 1), bss=(1, 2, 3), drops=(False, True)):
    out = []
    for bs in bss:
        for B, dyn in ((1, False), (2, False), (2, True), (3, False), (3, True)):
            for drop in drops:
                for seed in seeds:
                    out.append(dict(bs=bs, B=B, dyn=dyn, drop=drop, seed=seed))
    return out


DIST_CORPORA = [(3, 1, 1), (2, 3, 1, 2), (3, 1, 3, 2, 2), (1, 3, 2, 2, 3, 1)]
BATCHINGS_SMALL = [dict(bs=2, B=1, dyn=False, drop=False, seed=None), dict(bs=2, B=2, dyn=True, drop=False, seed=None),
                   dict(bs=2, B=1, dyn=False, drop=False, seed=0), dict(bs=2, B=2, dyn=True, drop=False, seed=0)]


def _flags(kind):
    names = ["sort_batch", "batch_first", "suppress_uttids", "tokens_only"] + (["suppress_alis"] if kind == "spect" else [])
    for vals in itertools.product((False, True), repeat=len(names)):
        yield dict(zip(names, vals))


def _bucket_units(tier):
    nmax = 7 if tier == "thorough" else 6
    units = []
    for n in range(nmax + 1):
        for B in (1, 2, 3):
            for assign in itertools.product(range(B), repeat=n):
                units.append((n, B, assign))
    return units


def shards(tier, seed):
    out = [{"part": "bucket", "i": i, "of": 16} for i in range(16)]
    if tier == "thorough":
        out += [{"part": "joint", "kind": k, "i": i, "of": s} for k, s in (("spect", 64), ("lang", 16)) for i in range(s)]
        out += [{"part": "struct", "kind": k, "i": i, "of": 8} for k in ("spect", "lang") for i in range(8)]
        out += [{"part": "collate", "kind": k, "i": i, "of": 8} for k in ("spect", "lang") for i in range(8)]
        out += [{"part": "dist", "kind": k, "i": i, "of": 12} for k in ("spect", "lang") for i in range(12)]
        out += [{"part": "mid", "kind": k, "i": i, "of": 8} for k in ("spect", "lang") for i in range(8)]
    else:
        out += [{"part": "struct", "kind": k, "i": i, "of": s} for k, s in (("spect", 8), ("lang", 4)) for i in range(s)]
        out += [{"part": "collate", "kind": k, "i": i, "of": s} for k, s in (("spect", 12), ("lang", 4)) for i in range(s)]
        out += [{"part": "joint", "kind": k, "i": i, "of": s} for k, s in (("spect", 6), ("lang", 2)) for i in range(s)]
        out += [{"part": "dist", "kind": k, "i": i, "of": 4} for k in ("spect", "lang") for i in range(4)]
        out += [{"part": "mid", "kind": k, "i": i, "of": 4} for k in ("spect", "lang") for i in range(4)]
    out += [{"part": "window", "i": i, "of": 4} for i in range(4)]
    out += [{"part": "listing", "kind": k, "policy": pol, "i": i, "of": 2} for k in ("spect", "lang")
            for pol in LISTING_POLICIES[1:] for i in range(2)]
    out += [{"part": "direct"}]
    only = os.environ.get("VERIF_C14_PARTS")  # development aid: run a subset of the passes (never set by MANIFEST)
    if only:
        out = [x for x in out if x["part"] in only.split(",")]
    return out


# ------------------------------------------------------------ (a) bucket batch sampler ----
def _bucket_case(ctx, order, assign, sizes, drop, ids):
    n = len(order)
    idx2bucket = {i: ids[b] for i, b in enumerate(assign)}
    bucket2size = {ids[b]: s for b, s in enumerate(sizes)}
    case = {"kind": "bucket", "order": list(order), "assign": list(assign), "sizes": list(sizes), "drop": drop,
            "ids": list(ids)}
    sig = {"api": "BucketBatchSampler", "drop_incomplete": drop}
    try:
        bs = data.BucketBatchSampler(list(order), idx2bucket, bucket2size, drop)
        raw = list(bs)  # the yielded objects themselves are kept: later passes must not change them
        out = [list(b) for b in raw]
        again = [list(b) for b in bs]
        # object history: a pass abandoned after one batch, a complete pass in between, the first pass resumed
        it = iter(bs)
        head = [list(b) for b in itertools.islice(it, 1)]
        between = [list(b) for b in bs]
        resumed = head + [list(b) for b in it]
    except Exception as e:
        ctx.violation(dict(sig, symptom="raises", type=type(e).__name__), case, {"error": str(e)[-300:]})
        return
    why = O.check_bucket_batches(list(order), idx2bucket, bucket2size, drop, out)
    if why:
        ctx.violation(dict(sig, symptom=why), case, {"observed": out,
                                                      "documented": O.bucket_batches(order, idx2bucket, bucket2size, drop)})
        return
    if again != out:
        ctx.violation(dict(sig, symptom="second-iteration-differs"), case, {"first": out, "second": again})
        return
    if between != out or resumed != out:
        ctx.violation(dict(sig, symptom="interleaved-passes-differ-from-single-pass"), case,
                      {"single": out, "between": between, "resumed": resumed})
        return
    if [list(b) for b in raw] != out:
        ctx.violation(dict(sig, symptom="yielded-batch-changed-by-later-pass"), case, {"first": out,
                                                                                       "now": [list(b) for b in raw]})
        return
    if not all(isinstance(b, int) and b >= 0 for b in ids):
        # the docs order the left-over batches by the ids' hashes, the code by the ids: only for non-negative
        # ints both agree, so only there the yield order is compared
        return out
    doc = O.bucket_batches(order, idx2bucket, bucket2size, drop)
    if out != doc:
        ctx.violation(dict(sig, symptom="yield-order-differs-from-documented"), case, {"observed": out, "documented": doc})
        return
    return out


def _run_bucket(ctx, spec, tier):
    units = _bucket_units(tier)
    allperm = 6 if tier == "thorough" else 5
    mine = units[spec["i"]::spec["of"]]
    for n, B, assign in mine:
        if n <= allperm:
            orders = list(itertools.permutations(range(n)))
        else:
            ident = tuple(range(n))
            orders = [ident, ident[::-1], ident[n // 2:] + ident[: n // 2]]
        id_sets = [tuple(range(B))]
        if n <= 4:
            # any hashable, sortable bucket id: strings, negative ints (hash(-1) == hash(-2) in CPython), tuples
            id_sets += [("a", "b", "c")[:B], (-1, -2, 3)[:B], ((0,), (0, 1), (1, 0))[:B]]
        nt = 1 if (n >= 2) else 0
        for ids in id_sets:
            for sizes in itertools.product((1, 2, 3), repeat=B):
                for order in orders:
                    for drop in (False, True):
                        ctx.case(1, nt)
                        out = _bucket_case(ctx, order, assign, sizes, drop, ids)
                        if out is not None and n <= 4:
                            ctx.outcome(out)
        if n == 5 and B == 3 and assign == (0, 1, 2, 0, 1):
            ctx.sample({"order": [4, 0, 3, 1, 2], "assign": list(assign), "sizes": [2, 2, 1], "drop": False,
                        "batches": O.bucket_batches([4, 0, 3, 1, 2], dict(enumerate(assign)), {0: 2, 1: 2, 2: 1}, False)})


# ------------------------------------------------------------------ (b) loaders ----------
_STYLE = [0]
_LISTING = [None]  # listing policy the current run_loader call runs under (part of its replay case)


def _make(kind, path, bc, fl, init_epoch, mode, style):
    shuffle = bc["seed"] is not None
    pk = dict(batch_size=bc["bs"], drop_last=bc["drop"], num_length_buckets=bc["B"], size_batch_by_length=bc["dyn"])
    kw = dict(shuffle=shuffle, batch_first=fl["batch_first"], sort_batch=fl["sort_batch"], init_epoch=init_epoch,
              seed=bc["seed"], suppress_uttids=fl["suppress_uttids"], tokens_only=fl["tokens_only"])
    if mode is not None:
        kw["on_uneven_distributed"] = mode
    if kind == "spect":
        kw["suppress_alis"] = fl["suppress_alis"]
        if style:
            return data.SpectDataLoader(path, data.DynamicLengthDataLoaderParams(**pk), data.SpectDataParams(), **kw)
        return data.SpectDataLoader(path, data.SpectDataLoaderParams(**pk), **kw)
    if style:
        return data.LangDataLoader(os.path.join(path, "ref"), data.DynamicLengthDataLoaderParams(**pk),
                                   data.LangDataParams(), **kw)
    return data.LangDataLoader(os.path.join(path, "ref"), data.LangDataLoaderParams(**pk), **kw)


def run_loader(ctx, kind, corpus, root, variant, bc, fl, epochs=3, fresh=(1, 2), group=None, mode=None, style=None,
               abandon=False):
    """One loader configuration: history of `epochs` epochs + fresh loaders.  Returns the per-epoch
    lists of utterance-index batches (None after a violation, "raise" for a documented refusal)."""
    api = "SpectDataLoader" if kind == "spect" else "LangDataLoader"
    if style is None:
        _STYLE[0] += 1
        style = _STYLE[0] % 2
    path = corpus.write(root, variant)
    W, rank = group if group else (1, 0)
    case = {"kind": "loader", "api": kind, "lens": list(corpus.lens), "variant": variant, "bc": bc, "fl": fl,
            "epochs": epochs, "fresh": list(fresh), "group": list(group) if group else None, "mode": mode,
            "style": style, "abandon": abandon}
    sig = {"api": api, "empty": corpus.n == 0, "bucketed": bc["B"] > 1, "distributed": W > 1}
    if _LISTING[0]:
        case["listing"] = sig["listing_order"] = _LISTING[0]
    if torch.get_default_dtype() != torch.float32:
        case["default_dtype"] = sig["default_dtype"] = str(torch.get_default_dtype())
    if kind == "lang":
        sig["suppress_uttids"] = fl["suppress_uttids"]
    lengths = list(corpus.lens if kind == "spect" else corpus.rlens)
    cls, bounds = O.quantile_classes(lengths, bc["B"])
    sizes = O.class_sizes(bounds, bc["bs"], bc["dyn"] and bc["B"] > 1)
    ali_data, ref_data, ref2d = C.view(variant, fl["tokens_only"])
    if kind == "spect":
        ali_data = ali_data and not fl["suppress_alis"]

        def checker(b):
            return C.check_spect_batch(b, corpus, fl, ali_data, ref_data, ref2d)
    else:

        def checker(b):
            return C.check_lang_batch(b, corpus, fl, ref2d)
    shuffle = bc["seed"] is not None
    must_raise = W > 1 and mode == "raise" and not bc["drop"] and corpus.n % W != 0

    def bad(symptom, detail, **extra):
        ctx.violation(dict(sig, symptom=symptom, **extra), case, detail)
        return None

    try:
        loader = _make(kind, path, bc, fl, 0, mode, style)
    except Exception as e:
        if must_raise and isinstance(e, ValueError):
            return "raise"
        return bad("raises", {"error": str(e)[-300:], "where": "constructor"}, type=type(e).__name__)
    if must_raise:
        return bad("no-raise-on-indivisible", {"n": corpus.n, "W": W})
    lib_map = getattr(loader.batch_sampler, "idx2bucket", None)
    if bc["B"] > 1 and isinstance(lib_map, dict):
        # the bucket map is a documented attribute of BucketBatchSampler: it may refine the reference
        # length classes but must never put utterances of different classes into one bucket
        merged = [(i, j) for i in range(corpus.n) for j in range(i) if cls[i] != cls[j] and lib_map.get(i) == lib_map.get(j)]
        if merged:
            return bad("bucket-map-merges-length-classes", {"lengths": lengths, "reference_classes": cls,
                                                            "idx2bucket": lib_map}, tokens_only=fl["tokens_only"])
        lib_sizes = getattr(loader.batch_sampler, "bucket2size", None)
        if isinstance(lib_sizes, dict) and all(lib_map.get(i) == cls[i] for i in range(corpus.n)):
            got = [lib_sizes.get(c) for c in range(len(sizes))]
            if got != sizes:
                return bad("bucket-batch-size-differs-from-documented", {"lengths": lengths, "class_bounds": bounds,
                                                                         "documented": sizes, "bucket2size": lib_sizes})
    hist, hist_idx = [], []
    try:
        for e in range(epochs):
            L = len(loader)
            batches = list(loader)
            if L != len(batches):
                return bad("len-differs-from-batches-yielded", {"epoch": e, "len": L, "yielded": len(batches)},
                           shuffle=shuffle, first_epoch=e == 0)
            idxs = []
            for b in batches:
                idx, why = checker(b)
                if why:
                    return bad(why, {"epoch": e, "rows": idx, "batch": C.canon(b)})
                idxs.append(idx)
            order = None
            if not shuffle and W == 1:
                order = list(range(corpus.n))
                if fl["sort_batch"]:
                    idxs_s = [sorted(b) for b in idxs]
                else:
                    idxs_s = idxs
            else:
                idxs_s = idxs
            why = O.check_epoch_structure(idxs_s, cls, sizes, bc["drop"], order=order,
                                          cover=(W == 1 or (mode == "ignore" and not bc["drop"])))
            if why:
                return bad(why, {"epoch": e, "batches": idxs, "length_classes": cls, "class_batch_sizes": sizes,
                                 "lengths": lengths}, tokens_only=fl["tokens_only"])
            hist.append([C.canon(b) for b in batches])
            hist_idx.append(idxs)
        for k in fresh:
            if k >= epochs:
                continue
            f = _make(kind, path, bc, fl, k, mode, 1 - style)
            L = len(f)
            got = [C.canon(b) for b in f]
            if got != hist[k]:
                return bad("fresh-loader-at-epoch-differs-from-history", {"epoch": k, "history": hist_idx[k],
                                                                          "fresh_first_batch": got[:1]}, shuffle=shuffle)
            if L != len(got):
                return bad("len-differs-from-batches-yielded", {"epoch": k, "len": L, "yielded": len(got), "fresh": True},
                           shuffle=shuffle, first_epoch=True)
        if 0 in fresh and epochs > 1:
            # rewinding through the documented epoch attribute
            loader.epoch = 1
            got = [C.canon(b) for b in loader]
            if got != hist[1]:
                return bad("rewound-epoch-differs-from-history", {"epoch": 1, "history": hist_idx[1]}, shuffle=shuffle)
        if abandon and hist[0]:
            # object history: a pass abandoned after its first batch, len() asked half way, a second pass started on
            # the same loader, then the abandoned pass resumed - both must deliver epoch 0 as the history did
            loader.epoch = 0
            it = iter(loader)
            first = C.canon(next(it))
            len(loader)
            loader.epoch = 0
            second = [C.canon(b) for b in loader]
            rest = [C.canon(b) for b in it]
            if second != hist[0]:
                return bad("pass-after-abandoned-pass-differs-from-history", {"history": hist_idx[0]}, shuffle=shuffle)
            if [first] + rest != hist[0]:
                return bad("resumed-abandoned-pass-differs-from-history", {"history": hist_idx[0]}, shuffle=shuffle)
    except Exception as e:
        return bad("raises", {"error": str(e)[-300:], "where": "iteration"}, type=type(e).__name__)
    return hist_idx


def _loader_pass(ctx, spec, tier, seed):
    kind, part = spec["kind"], spec["part"]
    with C.Scratch("c14-%s-%s-%d" % (part, kind, spec["i"])) as root:
        if part == "struct":
            corpora = _corpora(tier)
            plan = [("A", bc, dict(FLAGS_BASE), 3, (0, 1, 2) if tier == "thorough" else (1, 2)) for bc in _batchings()]
        elif part == "collate":
            corpora = _corpora("quick")
            variants = ("A", "B", "C") if kind == "spect" else ("A", "B")
            plan = [(v, bc, fl, 1, (0,)) for v in variants
                    for bc in (BATCHINGS_SMALL if (v == "A" or tier == "thorough") else BATCHINGS_SMALL[1:3])
                    for fl in _flags(kind)]
        else:  # joint
            if tier == "thorough":
                corpora = _corpora(tier)
                plan = [("A", bc, fl, 2, (1,)) for bc in _batchings() for fl in _flags(kind)]
            else:
                corpora = _corpora(tier, nmax=2)
                plan = [("A", bc, fl, 1, (0,)) for bc in _batchings(seeds=(None, 0), bss=(1, 2)) for fl in _flags(kind)]
        # unit of distribution = (corpus, plan slice) so that shards are equal whatever the corpus sizes
        units = [(c, j) for c in corpora for j in range(4)]
        mine = units[spec["i"]::spec["of"]]
        cache = {}
        for lens, j in mine:
            corpus = cache.get(lens)
            if corpus is None:
                corpus = cache[lens] = C.Corpus(lens, seed)
            for variant, bc, fl, epochs, fresh in plan[j::4]:
                ctx.case(1, 1 if corpus.n >= 2 else 0)
                out = run_loader(ctx, kind, corpus, root, variant, bc, fl, epochs, fresh, abandon=(part == "struct"))
                if out is not None:
                    ctx.outcome([len(x) for x in out] + [out[0][:2]] if out != "raise" else out)
                    if lens == (3, 1, 3, 2, 2) and bc == dict(bs=2, B=2, dyn=True, drop=False, seed=None) and fl == FLAGS_BASE:
                        ctx.sample({"loader": kind, "feat_lengths": list(lens), "config": bc, "epoch0_batches": out[0]})


def _listing_pass(ctx, spec, tier, seed):
    """The order in which the operating system lists feat/, ali/ and ref/ is an environment answer: every corpus of 2-3
    utterances (all length multisets; 3 entries = every permutation over the six policies) and one of 5 is loaded under
    the listing policy of this shard; every clause of run_loader (len, reproducibility, purity, lossless collation with
    ids attached) must hold exactly as under the stock listing, and the batches must be the ones the sorted listing gives."""
    kind, pol = spec["kind"], spec["policy"]
    corpora = [c for c in _corpora("quick") if 2 <= len(c) <= 3] + [(3, 1, 3, 2, 2)]
    plan = [("A", bc, dict(FLAGS_BASE), 2, (1,)) for bc in _batchings(seeds=(None, 0), bss=(1, 2))]
    plan += [(v, BATCHINGS_SMALL[1], fl, 1, (0,)) for v in (("A", "B", "C") if kind == "spect" else ("A", "B"))
             for fl in list(_flags(kind))[:: 3]]
    with C.Scratch("c14-listing-%s-%s-%d" % (kind, pol, spec["i"])) as root:
        for lens in corpora[spec["i"]:: spec["of"]]:
            corpus = C.Corpus(lens, seed)
            for variant, bc, fl, epochs, fresh in plan:
                ctx.case(1, 1)
                base = run_loader(ctx, kind, corpus, root, variant, bc, fl, epochs, fresh, style=0)
                _LISTING[0] = pol
                try:
                    with ListingPolicy(pol) as lp:
                        out = run_loader(ctx, kind, corpus, root, variant, bc, fl, epochs, fresh, style=0)
                finally:
                    _LISTING[0] = None
                ctx.count("directory-listings-answered-by-the-seam", lp.calls)
                if base is not None and out is not None and out != base:
                    ctx.violation({"api": "SpectDataLoader" if kind == "spect" else "LangDataLoader",
                                   "symptom": "batches-depend-on-directory-listing-order"},
                                  {"kind": "listing", "api": kind, "lens": list(lens), "variant": variant, "bc": bc,
                                   "fl": fl, "epochs": epochs, "fresh": list(fresh), "policy": pol},
                                  {"stock_listing": base, "this_listing": out})
                if out is not None:
                    ctx.outcome([pol, out if out == "raise" else [len(x) for x in out]])


def _dist_pass(ctx, spec, tier, seed):
    kind = spec["kind"]
    with C.Scratch("c14-dist-%s-%d" % (kind, spec["i"])) as root:
        if tier == "thorough":
            corpora = _corpora("quick")
            plan = [(bc, mode) for bc in _batchings() for mode in ("raise", "uneven", "ignore")]
            epochs, fresh = 3, (1, 2)
        else:
            # every interaction distributed x bucketed x shuffle x drop_last on every run: a handful of corpora
            # with ties (6 utterances: divisible by both world sizes, so the strict mode is exercised too)
            corpora = DIST_CORPORA
            plan = [(bc, mode) for bc in _batchings(bss=(1, 2)) for mode in ("raise", "uneven", "ignore")
                    if (bc["B"], bc["dyn"]) != (3, True)]
            epochs, fresh = 2, (1,)
        units = [(c, j) for c in corpora for j in range(4)]
        for lens, j in units[spec["i"]::spec["of"]]:
            corpus = C.Corpus(lens, seed)
            for bc, mode in plan[j::4]:
                for W in (2, 3):
                    per_rank = []
                    for rank in range(W):
                        ctx.case(1, 1 if corpus.n >= 2 else 0)
                        with SimulatedGroup(W, rank):
                            per_rank.append(run_loader(ctx, kind, corpus, root, "A", bc, dict(FLAGS_BASE), epochs, fresh,
                                                       group=(W, rank), mode=mode, abandon=(rank == 0)))
                    if any(x is None for x in per_rank):
                        continue
                    raised = [x == "raise" for x in per_rank]
                    case = {"kind": "dist", "api": kind, "lens": list(lens), "bc": bc, "mode": mode, "W": W}
                    sig = {"api": "SpectDataLoader" if kind == "spect" else "LangDataLoader", "distributed": True,
                           "bucketed": bc["B"] > 1}
                    if any(raised):
                        if not all(raised):
                            ctx.violation(dict(sig, symptom="only-some-ranks-raise"), case, {"raised": raised})
                        continue
                    ctx.outcome([[len(e) for e in x] for x in per_rank])
                    if bc["drop"]:
                        continue  # which utterances are dropped is the samplers' (C13) and the buckets' business
                    for e in range(epochs):
                        flat = [[i for b in x[e] for i in b] for x in per_rank]
                        why = O.check_partition(flat, corpus.n, W, "ignore" if mode == "ignore" else "uneven")
                        if why:
                            ctx.violation(dict(sig, symptom="across-ranks-" + why), dict(case, epoch=e), {"per_rank": flat})
                            break


# ------------------------------------------ (g) disturbances in the middle of an epoch ----
DISTURBANCES = ("len", "epoch-read", "peek-cur", "peek-next", "second-iter-0", "second-iter-1")


def run_mid_epoch(ctx, kind, corpus, root, bc, fl, group=None, mode=None, only=None):
    """Object history on ONE loader: rewind to epoch 0, take k batches, do something else with the loader (what a
    progress bar or a logger does), finish the epoch: the batches must be those of a fresh loader's epoch 0, for
    every k and every disturbance.  only = (k, disturbance) for replay."""
    api = "SpectDataLoader" if kind == "spect" else "LangDataLoader"
    path = corpus.write(root, "A")
    W, rank = group if group else (1, 0)
    base_case = {"kind": "mid", "api": kind, "lens": list(corpus.lens), "bc": bc, "fl": fl,
                 "group": list(group) if group else None, "mode": mode}
    sig = {"api": api, "bucketed": bc["B"] > 1, "distributed": W > 1, "shuffle": bc["seed"] is not None}
    try:
        want = [C.canon(b) for b in _make(kind, path, bc, fl, 0, mode, 0)]
        loader = _make(kind, path, bc, fl, 0, mode, 1)
    except Exception as e:
        if W > 1 and mode == "raise" and not bc["drop"] and corpus.n % W and isinstance(e, ValueError):
            return
        ctx.violation(dict(sig, symptom="raises", type=type(e).__name__), dict(base_case, k=None, disturbance=None),
                      {"error": str(e)[-300:], "where": "constructor"})
        return
    for k in range(len(want) + 1):
        for d in DISTURBANCES:
            if only is not None and (k, d) != tuple(only):
                continue
            if k == 0 and d.startswith("second-iter"):
                continue  # a pass that has not delivered anything yet is not bound to an epoch (iterators are lazy)
            ctx.case(1, 1 if corpus.n >= 2 else 0)
            case = dict(base_case, k=k, disturbance=d)
            try:
                loader.epoch = 0
                it = iter(loader)
                got = [C.canon(b) for b in itertools.islice(it, k)]
                smp = loader.batch_sampler.sampler
                if d == "len":
                    len(loader)
                elif d == "epoch-read":
                    loader.epoch
                elif d == "peek-cur":
                    list(smp.get_samples_for_epoch(smp.epoch))
                elif d == "peek-next":
                    list(smp.get_samples_for_epoch(smp.epoch + 1))
                else:
                    list(itertools.islice(iter(loader), int(d[-1])))
                got += [C.canon(b) for b in it]
            except Exception as e:
                ctx.violation(dict(sig, symptom="raises", type=type(e).__name__, disturbance=d), case,
                              {"error": str(e)[-300:]})
                return
            if got != want:
                ctx.violation(dict(sig, symptom="epoch-disturbed-mid-pass-differs-from-fresh-loader", disturbance=d), case,
                              {"fresh_sizes": [b[-2][2] if kind == "spect" else b[1][2] for b in want],
                               "first_differing_batch": next((j for j, (x, y) in enumerate(zip(got, want)) if x != y),
                                                             min(len(got), len(want))),
                               "batches_delivered": len(got), "batches_fresh": len(want)})
                return
    ctx.outcome(["mid", len(want), [len(b[-1]) for b in want]])


def _mid_pass(ctx, spec, tier, seed):
    kind = spec["kind"]
    fl = dict(FLAGS_BASE)
    with C.Scratch("c14-mid-%s-%d" % (kind, spec["i"])) as root:
        corpora = DIST_CORPORA if tier == "quick" else DIST_CORPORA + [(1, 2, 3), (2, 2), (3, 3, 1, 1, 2)]
        plan = [bc for bc in _batchings(seeds=(0, 1) if tier == "quick" else (None, 0, 1), bss=(1, 2))
                if bc["B"] > 1 or tier == "thorough"]
        groups = [(None, None), ((2, 0), "uneven"), ((2, 1), "uneven")]
        if tier == "thorough":
            groups += [((3, 1), "uneven"), ((2, 0), "ignore"), ((3, 2), "raise")]
        units = [(c, j) for c in corpora for j in range(4)]
        for lens, j in units[spec["i"]::spec["of"]]:
            corpus = C.Corpus(lens, seed)
            for bc in plan[j::4]:
                for group, mode in groups:
                    if group:
                        with SimulatedGroup(*group):
                            run_mid_epoch(ctx, kind, corpus, root, bc, fl, group, mode)
                    else:
                        run_mid_epoch(ctx, kind, corpus, root, bc, fl)
    ctx.sample({"mid_epoch_part": {"loader": kind, "disturbances": list(DISTURBANCES),
                                   "example": {"feat_lengths": [3, 1, 3, 2, 2], "k": 1, "disturbance": "len"}}})


# ------------------------------------------------------------- (c) context windows --------
def _extract_window_pass(ctx, seed):
    for T in range(1, 5):
        rows = [[1000.0 + 10 * t + f + 0.25 * C.filler(seed, T, t, f) for f in range(C.NF)] for t in range(T)]
        feat = torch.tensor(rows)
        for left, right, reverse in itertools.product(range(3), range(3), (False, True)):
            for t in range(T):
                ctx.case(1, 1 if (t - left < 0 or t + right >= T) else 0)
                case = {"kind": "extract_window", "T": T, "left": left, "right": right, "reverse": reverse, "t": t,
                        "seed": seed}
                try:
                    got = data.extract_window(feat, t, left, right, reverse)
                except Exception as e:
                    ctx.violation({"api": "extract_window", "symptom": "raises", "type": type(e).__name__}, case,
                                  {"error": str(e)[-300:]})
                    continue
                want = O.window(rows, t, left, right, reverse)
                if got.tolist() != want:
                    ctx.violation({"api": "extract_window", "symptom": "differs-from-edge-replicated-reference",
                                   "reverse": reverse}, case, {"expected": want, "observed": got.tolist()})
                else:
                    ctx.outcome([T, left, right, reverse, t])
                if feat.tolist() != rows:
                    ctx.violation({"api": "extract_window", "symptom": "input-modified"}, case, {})


def run_window_loader(ctx, corpus, root, variant, left, right, reverse, bs, drop, seed_, suppress_uttids, style):
    path = corpus.write(root, variant)
    case = {"kind": "window-loader", "lens": list(corpus.lens), "variant": variant, "left": left, "right": right,
            "reverse": reverse, "bs": bs, "drop": drop, "seed": seed_, "suppress_uttids": suppress_uttids, "style": style}
    sig = {"api": "ContextWindowDataLoader", "empty": corpus.n == 0}
    refw = [O.windows(corpus.feat[i], left, right, reverse) for i in range(corpus.n)]

    def mk(init_epoch):
        pk = dict(batch_size=bs, drop_last=drop)
        dk = dict(context_left=left, context_right=right, reverse=reverse)
        kw = dict(shuffle=seed_ is not None, init_epoch=init_epoch, seed=seed_, suppress_uttids=suppress_uttids)
        if style:
            return data.ContextWindowDataLoader(path, data.DataLoaderParams(**pk), data.ContextWindowDataParams(**dk), **kw)
        return data.ContextWindowDataLoader(path, data.ContextWindowDataLoaderParams(**pk, **dk), **kw)

    def bad(symptom, detail, **extra):
        ctx.violation(dict(sig, symptom=symptom, **extra), case, detail)
        return None

    try:
        loader = mk(0)
        hist, hist_idx = [], []
        for e in range(2):
            L = len(loader)
            batches = list(loader)
            if L != len(batches):
                return bad("len-differs-from-batches-yielded", {"epoch": e, "len": L, "yielded": len(batches)})
            idxs = []
            for b in batches:
                idx, why = C.check_window_batch(b, corpus, variant == "A", left, right, reverse, suppress_uttids, refw)
                if why:
                    return bad(why, {"epoch": e, "rows": idx, "batch": C.canon(b)}, reverse=reverse)
                idxs.append(idx)
            why = O.check_epoch_structure(idxs, [0] * corpus.n, [bs], drop,
                                          order=list(range(corpus.n)) if seed_ is None else None)
            if why:
                return bad(why, {"epoch": e, "batches": idxs})
            hist.append([C.canon(b) for b in batches])
            hist_idx.append(idxs)
        f = mk(1)
        L = len(f)
        got = [C.canon(b) for b in f]
        if got != hist[1]:
            return bad("fresh-loader-at-epoch-differs-from-history", {"epoch": 1, "history": hist_idx[1]})
        if L != len(got):
            return bad("len-differs-from-batches-yielded", {"epoch": 1, "len": L, "yielded": len(got), "fresh": True})
    except Exception as e:
        return bad("raises", {"error": str(e)[-300:]}, type=type(e).__name__)
    return hist_idx


def _window_plan():
    plan = []
    for left, right, reverse in itertools.product(range(3), range(3), (False, True)):
        for su in (False, True):
            plan.append((left, right, reverse, 2, False, None, su))
    for bs, drop, seed_, su in itertools.product((1, 2, 3), (False, True), (None, 0), (False, True)):
        for reverse in (False, True):
            plan.append((1, 2, reverse, bs, drop, seed_, su))
    return plan


def _window_pass(ctx, spec, tier, seed):
    if spec["i"] == 0:
        _extract_window_pass(ctx, seed)
    corpora = _corpora("quick", nmax=4 if tier == "thorough" else 3) + [(1, 2, 3, 4), (4, 4, 1), (4,)]
    plan = _window_plan()
    with C.Scratch("c14-window-%d" % spec["i"]) as root:
        k = 0
        for lens in corpora[spec["i"]::spec["of"]]:
            corpus = C.Corpus(lens, seed)
            for variant in ("A", "C"):
                for left, right, reverse, bs, drop, seed_, su in plan:
                    k += 1
                    ctx.case(1, 1 if corpus.n >= 2 else 0)
                    out = run_window_loader(ctx, corpus, root, variant, left, right, reverse, bs, drop, seed_, su, k % 2)
                    if out is not None:
                        ctx.outcome([left, right, reverse, out[0][:2]])


# ------------------------------------------------------ direct calls of the collate functions ----
LAYOUTS = ("plain", "grad", "view")


def _as_layout(rows, layout, dtype):
    """the same values as a fresh tensor / a leaf requiring grad (floats) / a non-contiguous offset view"""
    t = torch.tensor(rows, dtype=dtype)
    if layout == "grad" and dtype.is_floating_point:
        return t.requires_grad_(True)
    if layout == "view":
        if t.dim() == 1:
            big = torch.zeros(2 * t.size(0) + 1, dtype=dtype)
            big[1::2] = t
            return big[1::2]
        big = torch.zeros(t.size(0) + 1, 2 * t.size(1), dtype=dtype)
        big[1:, ::2] = t
        return big[1:, ::2]
    return t


def _direct_pass(ctx, seed):
    kept = [None]
    for n in (1, 2, 3):
        for lens in itertools.product((1, 2, 3), repeat=n):
            corpus = C.Corpus(lens, seed)
            for layout in LAYOUTS:
                for fl in _flags("spect"):
                    for ali_none, ref_none in itertools.product(("no", "all", "first"), repeat=2):
                        if fl["suppress_alis"] and ali_none != "no":
                            continue
                        if layout != "plain" and (ali_none, ref_none) not in (("no", "no"), ("first", "all")):
                            continue
                        ctx.case(1, 1 if n >= 2 else 0)
                        _direct_spect(ctx, corpus, fl, ali_none, ref_none, layout, kept)
                for fl in _flags("lang"):
                    ctx.case(1, 1 if n >= 2 else 0)
                    _direct_lang(ctx, corpus, fl, layout, kept)
    _dtype_pass(ctx, seed)


def _kept_check(ctx, kept, sig, case, out):
    """results not aliased: the batch returned by the previous call must not have changed"""
    prev = kept[0]
    kept[0] = (out, C.canon(out))
    if prev is not None and C.canon(prev[0]) != prev[1]:
        ctx.violation(dict(sig, symptom="earlier-batch-changed-by-later-call"), case, {"before": prev[1]})
        return False
    return True


def _dtype_pass(ctx, seed):
    """loaders constructed and iterated while torch's default dtype is float64: same batches, stored dtypes"""
    old = torch.get_default_dtype()
    other = dict(sort_batch=True, batch_first=False, suppress_alis=False, suppress_uttids=True, tokens_only=False)
    with C.Scratch("c14-dtype") as root:
        try:
            torch.set_default_dtype(torch.float64)
            for lens in DIST_CORPORA[:3]:
                corpus = C.Corpus(lens, seed)
                for kind in ("spect", "lang"):
                    for bc in BATCHINGS_SMALL:
                        for fl in (dict(FLAGS_BASE), other):
                            ctx.case(1, 1)
                            run_loader(ctx, kind, corpus, root, "A", bc, fl, 1, (0,))
                for left, right, reverse, bs, drop, seed_, su in _window_plan()[::5]:
                    ctx.case(1, 1)
                    run_window_loader(ctx, corpus, root, "A", left, right, reverse, bs, drop, seed_, su, 0)
        finally:
            torch.set_default_dtype(old)


def _direct_spect(ctx, corpus, fl, ali_none, ref_none, layout="plain", kept=None):
    case = {"kind": "direct-spect", "lens": list(corpus.lens), "fl": fl, "ali_none": ali_none, "ref_none": ref_none,
            "layout": layout}
    sig = {"api": "spect_seq_to_batch", "layout": layout}
    ref2d = not fl["tokens_only"]
    seq, given = [], []
    for i in range(corpus.n):
        ali = None if (ali_none == "all" or (ali_none == "first" and i == 0)) else _as_layout(corpus.ali[i], layout, torch.long)
        ref = None if (ref_none == "all" or (ref_none == "first" and i == 0)) else _as_layout(corpus.refrows(i, ref2d), layout, torch.long)
        feat = _as_layout(corpus.feat[i], layout, torch.float32)
        given.append((feat, corpus.feat[i], ali, corpus.ali[i], ref, corpus.refrows(i, ref2d)))
        tup = [feat]
        if not fl["suppress_alis"]:
            tup.append(ali)
        tup.append(ref)
        if not fl["suppress_uttids"]:
            tup.append(corpus.ids[i])
        seq.append(tuple(tup))
    try:
        out = data.spect_seq_to_batch(seq, fl["batch_first"], fl["sort_batch"], not fl["suppress_alis"], not fl["suppress_uttids"])
    except Exception as e:
        ctx.violation(dict(sig, symptom="raises", type=type(e).__name__), case, {"error": str(e)[-300:]})
        return
    for feat, f0, ali, a0, ref, r0 in given:
        if feat.tolist() != f0 or (ali is not None and ali.tolist() != a0) or (ref is not None and ref.tolist() != r0):
            ctx.violation(dict(sig, symptom="input-modified"), case, {})
            return
    if kept is not None and not _kept_check(ctx, kept, sig, case, out):
        return
    # documented: an alignment / reference missing in any element makes the whole field None
    idx, why = C.check_spect_batch(out, corpus, fl, ali_none == "no", ref_none == "no", ref2d)
    if why:
        ctx.violation(dict(sig, symptom=why), case, {"rows": idx, "batch": C.canon(out)})
        return
    if not fl["sort_batch"] and idx != list(range(corpus.n)):
        ctx.violation(dict(sig, symptom="row-order-changed-without-sort"), case, {"rows": idx})
        return
    ctx.outcome([idx, ali_none, ref_none, layout])


def _direct_lang(ctx, corpus, fl, layout="plain", kept=None):
    case = {"kind": "direct-lang", "lens": list(corpus.lens), "fl": fl, "layout": layout}
    sig = {"api": "lang_seq_to_batch", "layout": layout}
    ref2d = not fl["tokens_only"]
    seq = []
    for i in range(corpus.n):
        ref = _as_layout(corpus.refrows(i, ref2d), layout, torch.long)
        seq.append(ref if fl["suppress_uttids"] else (ref, corpus.ids[i]))
    try:
        out = data.lang_seq_to_batch(seq, fl["batch_first"], fl["sort_batch"], not fl["suppress_uttids"])
    except Exception as e:
        ctx.violation(dict(sig, symptom="raises", type=type(e).__name__), case, {"error": str(e)[-300:]})
        return
    for i, item in enumerate(seq):
        if (item if fl["suppress_uttids"] else item[0]).tolist() != corpus.refrows(i, ref2d):
            ctx.violation(dict(sig, symptom="input-modified"), case, {})
            return
    if kept is not None and not _kept_check(ctx, kept, sig, case, out):
        return
    idx, why = C.check_lang_batch(out, corpus, fl, ref2d)
    if why:
        ctx.violation(dict(sig, symptom=why), case, {"rows": idx, "batch": C.canon(out)})
        return
    if not fl["sort_batch"] and idx != list(range(corpus.n)):
        ctx.violation(dict(sig, symptom="row-order-changed-without-sort"), case, {"rows": idx})
        return
    ctx.outcome([idx, fl["sort_batch"]])


# ---------------------------------------------------------------------------------------
def run_shard(spec, tier, seed):
    ctx = Ctx()
    part = spec["part"]
    if part == "bucket":
        _run_bucket(ctx, spec, tier)
    elif part in ("struct", "collate", "joint"):
        _loader_pass(ctx, spec, tier, seed)
    elif part == "dist":
        _dist_pass(ctx, spec, tier, seed)
    elif part == "mid":
        _mid_pass(ctx, spec, tier, seed)
    elif part == "window":
        _window_pass(ctx, spec, tier, seed)
    elif part == "listing":
        _listing_pass(ctx, spec, tier, seed)
    else:
        _direct_pass(ctx, seed)
    return ctx


def replay(case):
    ctx = Ctx()
    seed = int(os.environ.get("VERIF_SEED", "0") or 0)
    kind = case["kind"]
    if kind == "bucket":
        _bucket_case(ctx, tuple(case["order"]), tuple(case["assign"]), tuple(case["sizes"]), case["drop"],
                     tuple(tuple(x) if isinstance(x, list) else x for x in case["ids"]))
    elif kind == "loader":
        old = torch.get_default_dtype()
        with C.Scratch("c14-replay") as root:
            try:
                if case.get("default_dtype") == "torch.float64":
                    torch.set_default_dtype(torch.float64)
                corpus = C.Corpus(case["lens"], seed)
                grp = tuple(case["group"]) if case["group"] else None
                args = (ctx, case["api"], corpus, root, case["variant"], case["bc"], case["fl"], case["epochs"],
                        tuple(case["fresh"]), grp, case["mode"], case["style"], case.get("abandon", False))
                _LISTING[0] = case.get("listing")
                with (ListingPolicy(case["listing"]) if case.get("listing") else contextlib.nullcontext()):
                    if grp:
                        with SimulatedGroup(*grp):
                            run_loader(*args)
                    else:
                        run_loader(*args)
            finally:
                _LISTING[0] = None
                torch.set_default_dtype(old)
    elif kind == "listing":
        with C.Scratch("c14-replay") as root:
            corpus = C.Corpus(case["lens"], seed)
            args = (ctx, case["api"], corpus, root, case["variant"], case["bc"], case["fl"], case["epochs"],
                    tuple(case["fresh"]))
            base = run_loader(*args, style=0)
            with ListingPolicy(case["policy"]):
                out = run_loader(*args, style=0)
            if base is not None and out is not None and out != base:
                ctx.violation({"api": "SpectDataLoader" if case["api"] == "spect" else "LangDataLoader",
                               "symptom": "batches-depend-on-directory-listing-order"}, case,
                              {"stock_listing": base, "this_listing": out})
    elif kind == "mid":
        with C.Scratch("c14-replay") as root:
            corpus = C.Corpus(case["lens"], seed)
            grp = tuple(case["group"]) if case["group"] else None
            only = None if case["k"] is None else (case["k"], case["disturbance"])
            if grp:
                with SimulatedGroup(*grp):
                    run_mid_epoch(ctx, case["api"], corpus, root, case["bc"], case["fl"], grp, case["mode"], only)
            else:
                run_mid_epoch(ctx, case["api"], corpus, root, case["bc"], case["fl"], None, None, only)
    elif kind == "dist":
        with C.Scratch("c14-replay") as root:
            corpus = C.Corpus(case["lens"], seed)
            for rank in range(case["W"]):
                with SimulatedGroup(case["W"], rank):
                    run_loader(ctx, case["api"], corpus, root, "A", case["bc"], dict(FLAGS_BASE), 3, (1, 2),
                               group=(case["W"], rank), mode=case["mode"])
    elif kind == "extract_window":
        sub = Ctx()
        _extract_window_pass(sub, case.get("seed", seed))
        for v in sub.violations:
            if all(v["case"].get(k) == case.get(k) for k in ("T", "left", "right", "reverse", "t")):
                ctx.violation(v["sig"], v["case"], v["detail"])
    elif kind == "window-loader":
        with C.Scratch("c14-replay") as root:
            corpus = C.Corpus(case["lens"], seed)
            run_window_loader(ctx, corpus, root, case["variant"], case["left"], case["right"], case["reverse"],
                              case["bs"], case["drop"], case["seed"], case["suppress_uttids"], case["style"])
    elif kind == "direct-spect":
        _direct_spect(ctx, C.Corpus(case["lens"], seed), case["fl"], case["ali_none"], case["ref_none"],
                      case.get("layout", "plain"))
    elif kind == "direct-lang":
        _direct_lang(ctx, C.Corpus(case["lens"], seed), case["fl"], case.get("layout", "plain"))
    return ctx
