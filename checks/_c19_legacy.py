"""C19 helper: the DEPRECATED functional interface of pydrobert.torch.estimators (to_z, to_b, to_fb,
reinforce, relax, REBARControlVariate) - a second public path to the mechanisms C19 speaks about.

Clauses that cover it (and how they are decided here):
* "thresholding a conditional relaxed sample always returns the conditioning value":
  to_b(z~) == b for the z~ that ``relax`` hands to the control variate, for every grid point.
* "the relaxed density factors as threshold probability times conditional density": the legacy path
  has no density functions; the operational content is that z~ | b has the conditional law of z.
  Bernoulli: z~ is monotone in its uniform number, so its values on the midpoint grid, sorted, must be
  the conditional quantiles (oracle, documented formula) - and equal, as a multiset, the class-based
  LogisticBernoulli.csample on the same grid.  Categorical: z~ equals the class-based
  GumbelOneHotCategorical.csample point by point under the same noise.
* "the relaxation-based estimators have the same exact mean in value": ``relax(..., components=True)``
  exposes diff = f(b) - c(z~); diff + c(z) is the RELAX value; its mean over the same quadrature
  grids as for RelaxEstimator must be sum_b P(b) f(b).
* direct-estimator clause (value and gradient): ``reinforce`` is the score-function gradient of the
  direct estimate; sum_b P(b) reinforce(f(b), b) must be the exact gradient.
* ``relax``'s own docstring promises an unbiased derivative ("unbiased where promised"): for the
  Bernoulli case the gradient mean is integrated on the midpoint product grid with one Richardson step
  (exact for the u-linear control variate, whose integrand is a polynomial of degree 2).  For the
  categorical case no exact quadrature of the pathwise-derivative terms exists; not judged.
* to_z / to_b / to_fb agree with LogisticBernoulli / GumbelOneHotCategorical rsample / threshold and
  with f(b) under the same noise (ties z == 0 excluded: to_b uses >, threshold uses >=).
"""

import itertools
import math

import torch

import pydrobert.torch.distributions as D
import pydrobert.torch.estimators as E

from mc.explore import Chooser
from mc.runner import h64
from mc.seams import ScriptedRandom
from mc.oracles import estimators as O
from checks._c19_tree import close

DT = {"float32": torch.float32, "float64": torch.float64}


class _Seq:
    """uniform seam answering the k-th torch.rand_like / torch.rand call with the k-th tensor"""

    def __init__(self, tensors):
        self.tensors, self.k = tensors, 0

    def __call__(self, shape, dt, device, label, ch):
        t = self.tensors[self.k]
        self.k += 1
        if tuple(t.shape) != tuple(shape):
            raise AssertionError(f"unexpected noise shape {tuple(shape)} vs {tuple(t.shape)} for {label}")
        return t.to(dt).contiguous()


class _Rec:
    """control variate wrapper remembering what it was called with (z first, then z~)"""

    def __init__(self, fn):
        self.fn, self.seen = fn, []

    def __call__(self, z, **kw):
        self.seen.append(z)
        return self.fn(z, **kw)


def _bern_relax_grid(cfg, K, j, dtype):
    """relax() for one Bernoulli with P(b=1) = j/K on the K x K midpoint grid (u for z along dim 0, v for z~
    along dim 1).  Returns mean value, mean gradient estimate, z~, b, and the class-based csample on the grid."""
    p = j / K
    logit = math.log(p) - math.log1p(-p)
    grid = torch.tensor(O.midpoints(K), dtype=torch.float64)
    U = grid.view(K, 1).expand(K, K)
    V = grid.view(1, K).expand(K, K)
    logits = torch.full((K, K), logit, dtype=dtype, requires_grad=True)
    t0, t1 = cfg["f"]
    f = lambda b: t0 + (t1 - t0) * b
    cs = cfg["cv"]
    if cs["kind"] == "ulinear":
        cfn = lambda z: cs["d"] + cs["a"] * torch.sigmoid(z - logit)
    else:
        cfn = E.REBARControlVariate(f, cfg["dist"], cs["lam"], cs["eta"], warn=False).to(dtype)
    c = _Rec(cfn)
    with ScriptedRandom(Chooser(), uniform=_Seq([U, V])):
        z = E.to_z(logits, cfg["dist"])
        b = E.to_b(z, cfg["dist"])
        fb = E.to_fb(f, b)
        diff, dlog_pb, dc_z, dc_zt = E.relax(fb, b, logits, z, c, cfg["dist"], components=True)
    with ScriptedRandom(Chooser(), uniform=_Seq([U, V])):
        z2 = E.to_z(logits, cfg["dist"])
        g2 = E.relax(E.to_fb(f, E.to_b(z2, cfg["dist"])), E.to_b(z2, cfg["dist"]), logits, z2, cfn, cfg["dist"])
    g = diff * dlog_pb + dc_z - dc_zt
    if not torch.allclose(g.detach(), g2.detach(), atol=1e-6, rtol=1e-6):
        raise ValueError("relax(components=True) does not reconstruct relax(components=False)")
    if len(c.seen) != 2:
        raise ValueError(f"control variate called {len(c.seen)} times, expected 2 (z, z~)")
    zt = c.seen[1].detach()
    value = (diff + cfn(c.seen[0])).detach().double().mean().item()
    grad = g.detach().double().mean().item()
    # class-based twin under the same noise
    dist = D.LogisticBernoulli(logits=logits.detach())
    with ScriptedRandom(Chooser(), uniform=_Seq([U, V])):
        zc = dist.rsample()
        bc = dist.threshold(zc)
        zcc = dist.csample(bc)
    same_z = torch.allclose(z.detach(), zc, atol=1e-6, rtol=1e-6)
    same_b = bool((b == bc)[zc != 0].all())
    same_fb = torch.equal(fb.detach(), f(b).detach())
    return value, grad, zt, b.detach(), zcc, (same_z, same_b, same_fb), p


def run_legacy_bern(ctx, cfg):
    dtype = DT[cfg.get("dtype", "float64")]
    case = {"kind": "legacy_bern", "cfg": cfg}
    sig0 = {"api": "deprecated-relax", "dist": "bern", "cv": cfg["cv"]["kind"]}
    K, j = cfg["K"], cfg["j"]
    t0, t1 = cfg["f"]
    try:
        v1, g1, zt, b, zcc, agree, p = _bern_relax_grid(cfg, K, j, dtype)
        v2, g2, *_ = _bern_relax_grid(cfg, 2 * K, 2 * j, dtype)
    except Exception as ex:  # noqa: BLE001
        ctx.case(1)
        ctx.violation(dict(sig0, symptom="raises", type=type(ex).__name__), case, {"error": repr(ex)[-400:]})
        return
    ctx.case(5 * K * K, nontrivial=K * K)
    ctx.key(("legacy_bern", h64(cfg)))
    ctx.count("legacy_quadratures")
    want_v = t0 + (t1 - t0) * p
    want_g = (t1 - t0) * p * (1 - p)
    got_v = (4 * v2 - v1) / 3.0
    got_g = (4 * g2 - g1) / 3.0
    if not all(agree):
        ctx.violation(dict(sig0, symptom="deprecated-path-differs-from-class-based",
                           what=["to_z", "to_b", "to_fb"][[i for i, a in enumerate(agree) if not a][0]]), case, None)
    # thresholding the conditional sample returns the conditioning value
    if not bool((E.to_b(zt, cfg["dist"]) == b).all()):
        ctx.violation(dict(sig0, symptom="to_b(z~) != b"), case, None)
    # conditional law: quantiles on the midpoint grid, per conditioning value (rows of the grid share b)
    mids = O.midpoints(K)
    for bv in (0, 1):
        rows = (b[:, 0] == bv).nonzero().reshape(-1)
        if rows.numel() == 0:
            continue
        got = sorted(zt[rows[0]].double().tolist())
        want = sorted(O.lb_zcond(p, v, bv) for v in mids)
        cls = sorted(zcc[rows[0]].double().tolist())
        if any(not close(a, w, 1e-5) for a, w in zip(got, want)):
            ctx.violation(dict(sig0, symptom="z~ not distributed as z given b", b=bv), case,
                          {"expected_quantiles": want[:4], "observed": got[:4]})
        if any(not close(a, w, 1e-5) for a, w in zip(got, cls)):
            ctx.violation(dict(sig0, symptom="deprecated-path-differs-from-class-based", what="conditional sample",
                               b=bv), case, {"class_based": cls[:4], "deprecated": got[:4]})
    if not close(got_v, want_v):
        ctx.violation(dict(sig0, symptom="biased-value"), case, {"expected": want_v, "observed": got_v})
    if not close(got_g, want_g, cfg.get("gtol", 1e-5)):
        ctx.violation(dict(sig0, symptom="biased-gradient"), case, {"expected": want_g, "observed": got_g})
    ctx.outcome(("legacy-bern", round(want_v, 4), round(want_g, 4)))


def run_legacy_cat(ctx, cfg):
    """'cat' / 'onehot': region-mapped nodes as for RelaxEstimator on GumbelOneHotCategorical"""
    dtype = DT[cfg.get("dtype", "float64")]
    case = {"kind": "legacy_cat", "cfg": cfg}
    dist_name = cfg["dist"]
    sig0 = {"api": "deprecated-relax", "dist": dist_name, "cv": cfg["cv"]["kind"]}
    p, K = cfg["p"], cfg["K"]
    V = len(p)
    mids = O.midpoints(K)
    U, Vn, W, Kk = [], [], [], []
    for k in range(V):
        for v in itertools.product(mids, repeat=V):
            U.append(O.gumbel_region_u(p, v, k)); Vn.append(list(v)); W.append(p[k] / K ** V); Kk.append(k)
    Ut, Vt = torch.tensor(U, dtype=torch.float64), torch.tensor(Vn, dtype=torch.float64)
    Wt = torch.tensor(W, dtype=torch.float64)
    B = len(W)
    logits = torch.tensor([math.log(x) + cfg.get("shift", 0.0) for x in p], dtype=dtype).expand(B, V).clone().requires_grad_(True)
    t = torch.tensor(cfg["f"], dtype=dtype)
    if dist_name in E.CATEGORICAL_SYNONYMS:
        f = lambda b: t[b.long()]
    else:
        f = lambda b: (b * t).sum(-1)
    frel = lambda x: (x * t).sum(-1)
    cs = cfg["cv"]
    if cs["kind"] == "rebar":
        cfn = E.REBARControlVariate(frel, dist_name, cs["lam"], cs["eta"], warn=False).to(dtype)
    else:
        a = torch.tensor(cs["a"], dtype=dtype)
        cfn = lambda z: cs["d"] + (a * torch.tanh(z)).sum(-1)
    c = _Rec(cfn)
    try:
        with ScriptedRandom(Chooser(), uniform=_Seq([Ut, Vt])):
            z = E.to_z(logits, dist_name)
            b = E.to_b(z, dist_name)
            fb = E.to_fb(f, b)
            diff, dlog_pb, dc_z, dc_zt = E.relax(fb, b, logits, z, c, dist_name, components=True)
        zt = c.seen[1].detach()
        # (for the categorical kinds relax returns diff with a trailing singleton dimension)
        value = ((diff.reshape(B) + cfn(c.seen[0])).detach().double() * Wt).sum().item()
        gd = D.GumbelOneHotCategorical(logits=logits.detach())
        with ScriptedRandom(Chooser(), uniform=_Seq([Ut, Vt])):
            zc = gd.rsample()
            bc = gd.threshold(zc)
            zcc = gd.csample(bc)
        b1h = b if dist_name in E.ONEHOT_SYNONYMS else torch.nn.functional.one_hot(b.long(), V).to(dtype)
        # reinforce: sum_b P(b) f(b) dlogP(b)/dlogits, every class once
        lg1 = torch.tensor([math.log(x) + cfg.get("shift", 0.0) for x in p], dtype=dtype).expand(V, V).clone().requires_grad_(True)
        bb = torch.eye(V, dtype=dtype) if dist_name in E.ONEHOT_SYNONYMS else torch.arange(V, dtype=dtype)
        gr = E.reinforce(E.to_fb(f, bb), bb, lg1, dist_name)
    except Exception as ex:  # noqa: BLE001
        ctx.case(1)
        ctx.violation(dict(sig0, symptom="raises", type=type(ex).__name__), case, {"error": repr(ex)[-400:]})
        return
    ctx.case(4 * B, nontrivial=B)
    ctx.key(("legacy_cat", h64(cfg)))
    ctx.count("legacy_quadratures")
    want_v = sum(x * y for x, y in zip(p, cfg["f"]))
    if not torch.allclose(z.detach(), zc, atol=1e-6, rtol=1e-6):
        ctx.violation(dict(sig0, symptom="deprecated-path-differs-from-class-based", what="to_z"), case, None)
    if not torch.equal(b1h, bc):
        ctx.violation(dict(sig0, symptom="deprecated-path-differs-from-class-based", what="to_b"), case, None)
    expect_k = torch.tensor(Kk)
    if not torch.equal(b1h.argmax(-1), expect_k):
        ctx.violation(dict(sig0, symptom="to_b(to_z(u)) is not the region's class"), case, None)
    tb = E.to_b(zt, dist_name)
    if not torch.equal(tb, b):
        ctx.violation(dict(sig0, symptom="to_b(z~) != b"), case, {"count": int((tb != b).sum())})
    if not torch.allclose(zt.double(), zcc.double(), atol=1e-5, rtol=1e-5):
        i = ((zt.double() - zcc.double()).abs() > 1e-5).nonzero()[0].tolist()
        ctx.violation(dict(sig0, symptom="deprecated-path-differs-from-class-based", what="conditional sample"), case,
                      {"class_based": zcc[i[0]].tolist(), "deprecated": zt[i[0]].tolist()})
    want_zt = torch.tensor([O.gumbel_zcond(p, v, k) for v, k in zip(Vn, Kk)], dtype=torch.float64)
    if not torch.allclose(zt.double(), want_zt, atol=1e-5, rtol=1e-5):
        ctx.violation(dict(sig0, symptom="z~ not distributed as z given b"), case, None)
    if not close(value, want_v):
        ctx.violation(dict(sig0, symptom="biased-value"), case, {"expected": want_v, "observed": value})
    # exact gradient of sum_k softmax(l)_k f_k w.r.t. l_j = p_j (f_j - E f)
    want_g = [p[jj] * (cfg["f"][jj] - want_v) for jj in range(V)]
    got_g = [sum(p[k] * gr[k, jj].item() for k in range(V)) for jj in range(V)]
    if any(not close(a, w) for a, w in zip(got_g, want_g)):
        ctx.violation({"api": "deprecated-reinforce", "dist": dist_name, "symptom": "biased-gradient"}, case,
                      {"expected": want_g, "observed": got_g})
    ctx.outcome(("legacy-cat", dist_name, round(want_v, 4)))


def run_legacy_reinforce_bern(ctx, cfg):
    """reinforce with Bernoulli synonyms: element-wise, both values of b weighted by their probability"""
    case = {"kind": "legacy_reinforce", "cfg": cfg}
    dtype = DT[cfg.get("dtype", "float64")]
    lg = cfg["logits"]
    t0, t1 = cfg["f"]
    f = lambda b: t0 + (t1 - t0) * b
    ctx.case(2 * len(lg), nontrivial=len(lg))
    try:
        tot = [0.0] * len(lg)
        for bv in (0.0, 1.0):
            logits = torch.tensor(lg, dtype=dtype, requires_grad=True)
            b = torch.full((len(lg),), bv, dtype=dtype)
            g = E.reinforce(E.to_fb(f, b), b, logits, cfg["dist"])
            for i, x in enumerate(lg):
                pb = O.sigmoid(x) if bv else 1.0 - O.sigmoid(x)
                tot[i] += pb * g[i].item()
    except Exception as ex:  # noqa: BLE001
        ctx.violation({"api": "deprecated-reinforce", "dist": cfg["dist"], "symptom": "raises", "type": type(ex).__name__},
                      case, {"error": repr(ex)[-300:]})
        return
    want = [(t1 - t0) * O.sigmoid(x) * (1 - O.sigmoid(x)) for x in lg]
    if any(not close(a, w) for a, w in zip(tot, want)):
        ctx.violation({"api": "deprecated-reinforce", "dist": cfg["dist"], "symptom": "biased-gradient"}, case,
                      {"expected": want, "observed": tot})
    ctx.key(("legacy_reinforce", h64(cfg)))
