"""C10 - slicing policies yield the documented windows; token chunks are slice-relative (E1).

Parts (each a family of shards):
  fixed   slice_spect_data, policy 'fixed'
  ali     slice_spect_data, policy 'ali'
  ref     slice_spect_data, policy 'ref'
  tok     chunk_token_sequences_by_slices
  dir     chunk-torch-spect-data-dir over generated directories (checks/_c10_dir.py)
  guard   arguments unchanged / results not aliased / layouts / module histories / garbage beyond the
          lengths / one larger instance (checks/_c10_guard.py)
"""

import itertools
import json
import random
from collections import Counter

import torch

import pydrobert.torch.functional as F
import pydrobert.torch.modules as M

from mc.runner import Ctx
from mc.oracles import slicing as O

PROP = "C10"
LEVEL = "exploration"
RULE = (
    "fixed: every T in 0..8 (thorough 0..12), every length 0..T, lobes 0..3 (0..5), 3 window types x "
    "valid_only both, in_lens given (all lengths in one batch, reversed batch, one sequence per call) / "
    "omitted (N=1,2), with and without a trailing feature dimension. ali: every alignment in {0,1,2}^T "
    "(a superset of {0,1}^T), T in 0..5 (0..8), every length 0..T including length == T, lobes 0..2 "
    "(0..3; one more for T <= 3 (6)), x 3 x 2, as one batch of all (alignment,length) rows, one batch of the rows with length < T, "
    "batches of 3 consecutive rows, one row per call; in_lens omitted on the full-length rows (batch, "
    "single). ref: every list of <= 3 segments with both boundaries from {-1,0,1,2,3,5} (all 36 pairs: "
    "missing, empty and inverted segments included), every other_lens 0..7 (0..8), lobes {0,1,2} "
    "({0,1,2,3}) x 3 x 2; in_lens given: every list of j = 0..3 segments with in_lens = j in a 3-row "
    "tensor whose tail is one of 3 (7) filler segments that would be kept if in_lens were ignored; "
    "in_lens omitted: every list of exactly R = 0..3 segments in an R-row tensor; other_lens given or "
    "omitted (omitted: any single consistent bound is admitted); big batches plus one-row calls for "
    "lists of <= 1 segment. "
    "tok: every list of <= 3 tokens whose segments are the 26 well-formed pairs from the same boundary "
    "set (missing, empty; inverted excluded) x every slice in [-2,6]^2 ([-3,7]^2) x partial x retain, ref_lens "
    "omitted (per list length) / given (lists of <= 2 padded with a token that the slice would keep; "
    "thorough: every 3-list x ref_lens 0..3); one-row calls for lists of <= 1. dir: see _c10_dir.RULE. "
    "guard (checks/_c10_guard.py): per policy x 3 x 2 x lobes {0,1,2} (slicer; fixed T=6 all lengths, ali every "
    "row of T=4, ref every list of <= 2 segments x other_lens {0,3,6}) and per partial x retain (tokens; every "
    "second (2-list, slice) row with a third token beyond ref_lens), a fixed history of 13-14 calls on ONE "
    "module object and the functional: plain, rows reversed (same shapes, other values), other N/T/R with "
    "lengths omitted, one row, plain again, offset view, transposed-dense, triple dimension outermost / "
    "slices = stack([s,e]).T (column views contiguous), int32 lengths / alignments / slices and float64 "
    "features, garbage beyond in_lens / ref_lens (NaN, inf, +-2^62, negative, plausible), one larger instance "
    "(T=300 / 200 / R=40), the plain call under torch.set_default_dtype(float64) and under inference_mode, "
    "torch.jit.script and torch.jit.trace forms of both modules (traced on an example of another shape and "
    "other values; called on plain, reversed and lengths-omitted inputs), plus (1,1,3) refs for every segment; lifecycle: 9 variants (deepcopy, pickle, torch.save, copy after use / "
    "in eval mode, same-configuration state_dict into a fresh / used module, double-float, state_dict into a module "
    "of another configuration = one of the two configurations as a whole) of both modules for every option "
    "combination (54 + 4, falsy values included) on <= 500 rows each; every call: arguments unchanged, the previous "
    "result and the previous module result unchanged, result equal to the oracle. "
    "Cases are cartesian products of duplicate-free generators (distinct by construction); a case is "
    "non-trivial when the oracle prescribes >= 1 window (slicer) / the list holds >= 1 known token and "
    "the slice is non-degenerate (tokens) / the directory yields >= 1 chunk."
)
ASSUMPTIONS = [
    "small scope: T, alphabet, boundary set, lobe sizes, slice range as stated in the rule",
    "windows with valid_only false are not clamped to the sequence: the prose gives negative first "
    "offsets and the parameter description says invalid boundaries may be preserved; the phrase 'with "
    "lobes clamped within the sequence' is read as describing the later padding step",
    "ref policy, valid_only false, padded start == other_lens: documentation undecided ('begins after "
    "other_lens'); both verdicts admitted (counted in ref_start_eq_other_len)",
    "ref policy with other_lens omitted: the documentation states no default; the result must equal the "
    "documented filters under one per-sequence bound L in -1..(max boundary + lobe + 1)",
    "token chunking: inverted segments (0 <= end < start) are not enumerated (not a segment); slices with "
    "start >= end (never produced by the slicer) only have to keep an in-order sub-list of the known "
    "tokens with correctly shifted boundaries",
    "a token with an empty segment is 'contained' in a slice [a,b) when a <= start == end <= b",
    "int32 is enumerated only where the implementation's contract is dtype-agnostic (lengths, alignments, token "
    "slices); int32 refs are not (the output would inherit the dtype, the documentation says long)",
    "compiled forms: script and trace as exercised by tests/test_feats.py, CPU, one example per traced module",
    "directory level: the command has one --file-prefix / --file-suffix pair for input and output; "
    "--feat-subdir / --ali-subdir / --ref-subdir spellings are left at their defaults",
    "directory level: pad mode 'constant' only (padding content belongs to C09); TorchScript/CUDA not explored",
]
BUDGET_S = {"quick": 240, "thorough": 2400}

B = (-1, 0, 1, 2, 3, 5)
SEGS = [(s, e) for s in B for e in B]  # 36
SEGS_LEGAL = [(s, e) for (s, e) in SEGS if s < 0 or e < 0 or s <= e]  # 26
SLICES = [(a, b) for a in range(-2, 7) for b in range(-2, 7)]  # 81
SLICES_WIDE = [(a, b) for a in range(-3, 8) for b in range(-3, 8)]  # 121 (thorough)
WTS = O.WINDOW_TYPES


def _bounds(tier):
    q = tier != "thorough"
    return {
        "fixed_T": 8 if q else 12,
        "fixed_lobes": range(0, 4 if q else 6),
        "ali_T": 5 if q else 8,
        "ali_lobes": range(0, 3 if q else 4),
        "ref_lobes": (0, 1, 2) if q else (0, 1, 2, 3),
        "ref_other": range(0, 8 if q else 9),
    }


def _cfgs(lobes):
    return [(wt, v, l) for l in lobes for wt in WTS for v in (True, False)]


# =====================================================================================
# shards
# =====================================================================================
def shards(tier, seed):
    b = _bounds(tier)
    out = []
    for T in range(b["fixed_T"] + 1):
        out.append({"part": "fixed", "T": T})
    for T in range(b["ali_T"] + 1):
        if T < b["ali_T"] - 1:  # short sequences: one more lobe size than there can be segments
            out.append({"part": "ali", "T": T, "lobes": list(b["ali_lobes"]) + [max(b["ali_lobes"]) + 1]})
        else:
            for l in b["ali_lobes"]:
                out.append({"part": "ali", "T": T, "lobes": [l]})
    for l in b["ref_lobes"]:
        for first in range(len(SEGS)):
            out.append({"part": "ref", "lobe": l, "mode": "A", "first": first})
    for wt, v, l in _cfgs(b["ref_lobes"]):
        out.append({"part": "ref", "cfg": [wt, v, l], "mode": "rest"})
    for first in range(len(SEGS_LEGAL)):
        out.append({"part": "tok", "first": first})
    for partial in (False, True):
        for retain in (False, True):
            out.append({"part": "tok", "partial": partial, "retain": retain, "first": None})
    from checks import _c10_dir as D
    from checks import _c10_guard as G

    out.extend(D.shards(tier, seed))
    out.extend(G.shards(tier, seed))
    # heavy shards first so that the pool stays busy
    order = {"dir": 0, "guard": 1, "ref": 2, "tok": 3, "ali": 4, "fixed": 5}
    out.sort(key=lambda s: order[s["part"]])
    return out


def run_shard(spec, tier, seed):
    ctx = Ctx()
    part = spec["part"]
    if part == "fixed":
        _shard_fixed(ctx, spec, tier, seed)
    elif part == "ali":
        _shard_ali(ctx, spec, tier, seed)
    elif part == "ref":
        _shard_ref(ctx, spec, tier, seed)
    elif part == "tok":
        _shard_tok(ctx, spec, tier, seed)
    elif part == "guard":
        from checks import _c10_guard as G

        G.run_shard(ctx, spec, tier, seed)
    else:
        from checks import _c10_dir as D

        D.run_shard(ctx, spec, tier, seed)
    return ctx


def replay(case):
    ctx = Ctx()
    part, call, seed = case["part"], case["call"], case.get("seed", 0)
    if part == "fixed":
        _eval_fixed(ctx, call, seed)
    elif part == "ali":
        _eval_ali(ctx, call, seed)
    elif part == "ref":
        _eval_ref(ctx, call, seed)
    elif part == "tok":
        _eval_tok(ctx, call, seed)
    elif part == "guard":
        from checks import _c10_guard as G

        G.run_group(ctx, call, seed)
    else:
        from checks import _c10_dir as D

        D.replay(ctx, call, seed)
    return ctx


# =====================================================================================
# shared judging of slicer output
# =====================================================================================
def _slicer(use_module, input, in_lens, other_lens, policy, wt, valid, lobe):
    if use_module:
        return M.SliceSpectData(policy, wt, valid, lobe)(input, in_lens, other_lens)
    return F.slice_spect_data(input, in_lens, other_lens, policy, wt, valid, lobe)


def _group(slices, sources, N):
    rows = [[] for _ in range(N)]
    prev = -1
    for w, s in zip(slices, sources):
        if not (0 <= s < N):
            return None, "source-out-of-range"
        if s < prev:
            return None, "sources-not-in-order"
        rows[s].append(tuple(w))
        prev = s
    return rows, None


def _classify(exp, obs, frames, valid, middle=None):
    """exp: list of (window, mandatory); obs: list of windows; frames: sequence length the windows
    must stay inside when valid (None = unknown).  -> symptom or None"""
    if valid and frames is not None:
        for a, b in obs:
            if a < 0 or b > frames:
                return "valid-only-window-outside-sequence"
    if O.admits(exp, obs):
        return None
    exp_all = Counter(w for w, _ in exp)
    exp_mand = Counter(w for w, m in exp if m)
    cobs = Counter(obs)
    extra = cobs - exp_all
    missing = exp_mand - cobs
    if not extra and not missing:
        return "wrong-order"
    if extra and not missing:
        if middle is not None and frames is not None and all(middle(a, b) >= frames for a, b in extra):
            return "extra-window-middle-past-end"
        return "extra-windows"
    if missing and not extra:
        return "missing-windows"
    return "wrong-windows"


def _unpack(out):
    slices, sources = out
    if slices.dtype != torch.long or sources.dtype != torch.long:
        raise AssertionError(f"dtypes {slices.dtype}, {sources.dtype}")
    if slices.ndim != 2 or slices.size(1) != 2 or sources.shape != (slices.size(0),):
        raise AssertionError(f"shapes {tuple(slices.shape)}, {tuple(sources.shape)}")
    return [tuple(x) for x in slices.tolist()], sources.tolist()


def _judge_rows(ctx, sig0, case, exp_rows, frames_rows, valid, slices, sources, middle=None,
                info=None, max_outcomes=4000):
    """exp_rows[n] = list of (window, mandatory). Fast path: flat equality with the mandatory
    windows; otherwise per row."""
    N = len(exp_rows)
    flat = [w for r in exp_rows for (w, m) in r if m]
    flat_src = [n for n, r in enumerate(exp_rows) for (w, m) in r if m]
    if slices == flat and sources == flat_src:
        # identical to the oracle: every window prescribed, in order, right label; the oracle's
        # valid-only windows are inside by construction
        for r in exp_rows[:max_outcomes]:
            ctx.outcome(hash(tuple(w for w, m in r if m)) & 0xFFFFFFFFFFFF)
        return True
    rows, err = _group(slices, sources, N)
    if err is not None:
        ctx.violation(dict(sig0, symptom=err), case,
                      {"expected_first_rows": exp_rows[:4], "slices": slices[:12], "sources": sources[:12]})
        return False
    ok = True
    for n in range(N):
        sym = _classify(exp_rows[n], rows[n], frames_rows[n], valid, middle)
        if sym is None:
            if n < max_outcomes:
                ctx.outcome(hash(tuple(rows[n])) & 0xFFFFFFFFFFFF)
            continue
        ok = False
        ctx.violation(dict(sig0, symptom=sym), dict(case, row=n, row_info=None if info is None else info(n)),
                      {"expected": exp_rows[n], "observed": rows[n], "frames": frames_rows[n]})
    return ok


def _raise_detail(e):
    return {"error": f"{type(e).__name__}: {str(e)[-300:]}"}


# =====================================================================================
# fixed
# =====================================================================================
def _shard_fixed(ctx, spec, tier, seed):
    T = spec["T"]
    b = _bounds(tier)
    lens_all = list(range(T + 1))
    calls = [(lens_all, True), (lens_all[::-1], True)]
    calls += [([l], True) for l in lens_all]
    calls += [([T], False), ([T, T], False)]
    k = 0
    for wt, v, l in _cfgs(b["fixed_lobes"]):
        for lens, given in calls:
            k += 1
            call = {"T": T, "lens": lens, "in_lens_given": given, "cfg": [wt, v, l],
                    "trail": 2 if k % 2 else 0, "module": k % 3 == 0}
            _eval_fixed(ctx, call, seed)
    if T == 5:
        ctx.sample({"part": "fixed", "T": T, "example_call": call,
                    "oracle_windows_of_last_row": O.fixed_windows(T, wt, v, l)})


def _eval_fixed(ctx, call, seed):
    T, lens, given = call["T"], call["lens"], call["in_lens_given"]
    wt, v, l = call["cfg"]
    N = len(lens)
    rng = random.Random(seed * 7919 + T)
    shape = (N, T, call["trail"]) if call["trail"] else (N, T)
    x = torch.full(shape, float(rng.randint(-3, 3)))
    in_lens = torch.tensor(lens, dtype=torch.long) if given else None
    exp_rows = [[(w, True) for w in O.fixed_windows(n_len, wt, v, l)] for n_len in lens]
    sig0 = {"api": "slice_spect_data", "policy": "fixed", "window_type": wt, "valid_only": v,
            "lobe_pos": l > 0, "in_lens": "given" if given else "omitted"}
    case = {"part": "fixed", "call": call, "seed": seed}
    ctx.case(N, sum(1 for r in exp_rows if r))
    try:
        slices, sources = _unpack(_slicer(call["module"], x, in_lens, None, "fixed", wt, v, l))
    except Exception as e:
        ctx.violation({"api": "slice_spect_data", "policy": "fixed", "symptom": "raises",
                       "type": type(e).__name__, "zero_T": T == 0}, case, _raise_detail(e))
        return
    _judge_rows(ctx, sig0, case, exp_rows, lens, v, slices, sources,
                middle=lambda a, b2: O.fixed_middle(wt, l, a, b2))


# =====================================================================================
# ali
# =====================================================================================
def _ali_rows(T, which):
    rows = []
    for ali in itertools.product((0, 1, 2), repeat=T):
        for length in range(T + 1):
            if which == "lt" and length == T:
                continue
            if which == "full" and length != T:
                continue
            rows.append((ali, length))
    return rows


def _shard_ali(ctx, spec, tier, seed):
    T = spec["T"]
    all_rows = _ali_rows(T, "all")
    full_rows = _ali_rows(T, "full")
    k = 0
    for wt, v, l in _cfgs(spec["lobes"]):
        base = {"T": T, "cfg": [wt, v, l]}
        k += 1
        _eval_ali(ctx, dict(base, rows="all", in_lens_given=True, module=k % 2 == 0), seed)
        if T > 0:
            _eval_ali(ctx, dict(base, rows="lt", in_lens_given=True, module=k % 2 == 1), seed)
        _eval_ali(ctx, dict(base, rows="full", in_lens_given=False, module=False), seed)
        for i in range(0, len(all_rows), 3):
            _eval_ali(ctx, dict(base, rows=all_rows[i:i + 3], in_lens_given=True, module=False), seed)
        for r in all_rows:
            _eval_ali(ctx, dict(base, rows=[r], in_lens_given=True, module=False), seed)
        for r in full_rows:
            _eval_ali(ctx, dict(base, rows=[r], in_lens_given=False, module=False), seed)
    if T == 3:
        r = all_rows[len(all_rows) // 2]
        ctx.sample({"part": "ali", "T": T, "row": r, "cfg": [wt, v, l],
                    "oracle_windows": O.ali_windows(r[0], r[1], wt, v, l)})


def ali_span(wt, v, l):
    """number of neighbouring segments the lobes reach for: both sides summed when valid_only
    (a slice needs all of them), one side otherwise (the reach is clipped per side)."""
    return l * ((wt != "future") + (wt != "causal")) if v else l


def _eval_ali(ctx, call, seed):
    T, given = call["T"], call["in_lens_given"]
    wt, v, l = call["cfg"]
    rows = call["rows"]
    if isinstance(rows, str):
        rows = _ali_rows(T, rows)
    rows = [(tuple(a), n) for a, n in rows]
    N = len(rows)
    if N == 0:
        return
    x = torch.tensor([list(a) for a, _ in rows], dtype=torch.long).view(N, T)
    lens = [n for _, n in rows]
    in_lens = torch.tensor(lens, dtype=torch.long) if given else None
    exp_rows = [[(w, True) for w in O.ali_windows(a, n, wt, v, l)] for a, n in rows]
    case = {"part": "ali", "call": call, "seed": seed}
    ctx.case(N, sum(1 for r in exp_rows if r))
    try:
        slices, sources = _unpack(_slicer(call["module"], x, in_lens, None, "ali", wt, v, l))
    except Exception as e:
        total_segments = sum(len(O.ali_segments(a, n)) for a, n in rows)
        ctx.violation({"api": "slice_spect_data", "policy": "ali", "symptom": "raises",
                       "type": type(e).__name__, "len_eq_T": any(n == T for n in lens),
                       "total_segments_lt_span": 0 < total_segments < ali_span(wt, v, l), "zero_T": T == 0},
                      case, dict(_raise_detail(e), first_rows=rows[:3], total_segments=total_segments))
        return
    sig0 = {"api": "slice_spect_data", "policy": "ali", "window_type": wt, "valid_only": v,
            "lobe_pos": l > 0, "in_lens": "given" if given else "omitted"}
    _judge_rows(ctx, sig0, case, exp_rows, lens, v, slices, sources, info=lambda n: rows[n])


# =====================================================================================
# ref
# =====================================================================================
FILL = [(0, 1), (1, 2), (0, 5)]


def _ref_rows(first, others, fillers=FILL, width=3):
    """in_lens given: rows (segs, in_len, other_len): every list of j = 0..width segments (first
    segment fixed to SEGS[first] when ``first`` is not None) with in_len = j, stored in a
    tensor of ``width`` rows whose tail beyond in_len is a filler segment that most configurations
    would keep if in_lens were ignored; x every other_len (None = omitted)."""
    rows = []
    for j in range(width + 1):
        if j == 0:
            lists = [()] if first in (None, 0) else []
        else:
            firsts = SEGS if first is None else [SEGS[first]]
            lists = [(f,) + rest for f in firsts for rest in itertools.product(SEGS, repeat=j - 1)]
        fills = [None] if j == width else fillers
        for segs in lists:
            for fill in fills:
                full = segs + (fill,) * (width - j)
                for other in others:
                    rows.append((full, j, other))
    return rows


def _ref_rows_full(R, others, first=None):
    """in_lens omitted: every list of exactly R segments (tensor width R) x every other_len."""
    return [(segs, R, other) for segs in itertools.product(SEGS, repeat=R) for other in others
            if first is None or segs[0] == SEGS[first]]


def _shard_ref(ctx, spec, tier, seed):
    b = _bounds(tier)
    others = list(b["ref_other"])
    fillers = FILL if tier != "thorough" else FILL + [(2, 2), (-1, 3), (3, 1), (5, 5)]
    if spec["mode"] == "A":
        memo = {}  # inputs are shared by the six (window type, valid_only) configurations
        for wt in WTS:
            for v in (True, False):
                base = {"cfg": [wt, v, spec["lobe"]]}
                # in_lens and other_lens given
                _eval_ref(ctx, dict(base, R=3, rows={"gen": "given", "first": spec["first"], "others": others,
                                                     "fillers": fillers},
                                    in_given=True, other_given=True, module=spec["first"] % 2 == 0), seed, memo)
                # in_lens given, other_lens omitted
                _eval_ref(ctx, dict(base, R=3, rows={"gen": "given", "first": spec["first"], "others": [None],
                                                     "fillers": fillers},
                                    in_given=True, other_given=False, module=False), seed, memo)
                # in_lens omitted: lists of exactly 3 segments; other_lens given, then omitted
                _eval_ref(ctx, dict(base, R=3, rows={"gen": "full", "first": spec["first"], "others": others},
                                    in_given=False, other_given=True, module=False), seed, memo)
                _eval_ref(ctx, dict(base, R=3, rows={"gen": "full", "first": spec["first"], "others": [None]},
                                    in_given=False, other_given=False, module=False), seed, memo)
        return
    wt, v, l = spec["cfg"]
    base = {"cfg": [wt, v, l]}
    for R in range(0, 3):
        # in_lens omitted: lists of exactly R < 3 segments; other_lens given, then omitted
        _eval_ref(ctx, dict(base, R=R, rows={"gen": "full", "first": None, "others": others},
                            in_given=False, other_given=True, module=False), seed)
        _eval_ref(ctx, dict(base, R=R, rows={"gen": "full", "first": None, "others": [None]},
                            in_given=False, other_given=False, module=R == 2), seed)
    # one row per call, lists of <= 1 segment, all four modes
    for R in (0, 1):
        for segs, in_len, other in _ref_rows(None, others + [None], width=R):
            for in_given in (True, False):
                if not in_given and in_len != R:
                    continue
                _eval_ref(ctx, dict(base, R=R, rows=[[segs, in_len, other]], in_given=in_given,
                                    other_given=other is not None, module=False), seed)
    segs = ((0, 2), (-1, 1), (2, 5))
    if (wt, v, l) == ("symmetric", False, 2):
        ctx.sample({"part": "ref", "cfg": [wt, v, l], "segments": segs, "in_len": 3, "other_len": 6,
                "oracle_windows": O.ref_windows(segs, 3, 6, wt, v, l)})


_REF_MEMO = {}


def _ref_fate(seg, other, wt, v, l):
    k = (seg, other, wt, v, l)
    r = _REF_MEMO.get(k, 0)
    if r == 0:
        r = _REF_MEMO[k] = O.ref_window(seg, other, wt, v, l)
    return r


def _ref_inputs(call, seed, memo):
    """rows (segs, in_len, other_len), their token tensor (N, R, 3) and lengths."""
    R = call["R"]
    key = None
    if memo is not None and isinstance(call["rows"], dict):
        key = json.dumps([R, call["rows"]], sort_keys=True)
        if key in memo:
            return memo[key]
    out = _ref_inputs_build(call, seed)
    if key is not None:
        memo[key] = out
    return out


def _ref_inputs_build(call, seed):
    R = call["R"]
    rows = call["rows"]
    if isinstance(rows, dict):
        if rows["gen"] == "given":
            rows = _ref_rows(rows["first"], rows["others"], [tuple(f) for f in rows["fillers"]])
        else:
            rows = _ref_rows_full(R, rows["others"], rows["first"])
    else:
        rows = [(tuple(tuple(sg) for sg in segs), i, o) for segs, i, o in rows]
    N = len(rows)
    rng = random.Random(seed * 104729 + R)
    tok0 = rng.randint(0, 50)
    memo = {}
    data = []
    for segs, _, _ in rows:
        d = memo.get(segs)
        if d is None:
            d = memo[segs] = [[tok0 + t, sg[0], sg[1]] for t, sg in enumerate(segs)]
        data.append(d)
    x = torch.tensor(data, dtype=torch.long).view(N, R, 3)
    in_lens = torch.tensor([i for _, i, _ in rows], dtype=torch.long)
    others = [o for _, _, o in rows]
    other_lens = torch.tensor(others, dtype=torch.long) if N and others[0] is not None else None
    return rows, x, in_lens, other_lens


def _eval_ref(ctx, call, seed, memo=None):
    R = call["R"]
    wt, v, l = call["cfg"]
    in_given, other_given = call["in_given"], call["other_given"]
    rows, x, in_lens, other_lens = _ref_inputs(call, seed, memo)
    N = len(rows)
    if N == 0:
        return
    x = x.clone()  # never hand the same storage to the library twice
    in_lens = in_lens.clone() if in_given else None
    other_lens = other_lens.clone() if other_given else None
    case = {"part": "ref", "call": call, "seed": seed}
    sig0 = {"api": "slice_spect_data", "policy": "ref", "window_type": wt, "valid_only": v,
            "lobe_pos": l > 0, "in_lens": "given" if in_given else "omitted",
            "other_lens": "given" if other_given else "omitted"}
    try:
        slices, sources = _unpack(_slicer(call["module"], x, in_lens, other_lens, "ref", wt, v, l))
    except Exception as e:
        ctx.case(N, N)
        ctx.violation({"api": "slice_spect_data", "policy": "ref", "symptom": "raises",
                       "type": type(e).__name__, "in_lens": sig0["in_lens"],
                       "other_lens": sig0["other_lens"], "zero_T": R == 0},
                      case, dict(_raise_detail(e), first_rows=rows[:3]))
        return
    if other_given:
        exp_rows = []
        nt = amb = 0
        for segs, in_len, other in rows:
            r = []
            for sg in segs[:in_len]:
                f = _ref_fate(sg, other, wt, v, l)
                if f is not None:
                    r.append(f)
                    if not f[1]:
                        amb += 1
            nt += 1 if r else 0
            exp_rows.append(r)
        ctx.case(N, nt)
        if amb:
            ctx.count("ref_start_eq_other_len", amb)
        _judge_rows(ctx, sig0, case, exp_rows, [o for _, _, o in rows], v, slices, sources,
                    info=lambda n: rows[n])
        return
    # other_lens omitted: some single bound L per sequence must explain the row
    obs_rows, err = _group(slices, sources, N)
    if err is not None:
        ctx.case(N, N)
        ctx.violation(dict(sig0, symptom=err), case, {"slices": slices[:12], "sources": sources[:12]})
        return
    nt = 0
    hiL = max(B) + l + 2
    for n, (segs, in_len, _) in enumerate(rows):
        ok = False
        cands = [segs[in_len - 1][1] if in_len else 0] + list(range(-1, hiL + 1))
        for L in cands:
            exp = [f for f in (_ref_fate(sg, L, wt, v, l) for sg in segs[:in_len]) if f is not None]
            if O.admits(exp, obs_rows[n]):
                ok = True
                break
        # the filters that do not involve other_lens, evaluated with an unbounded length
        loose = [f for f in (_ref_fate(sg, 10 ** 6, wt, v, l) for sg in segs[:in_len]) if f is not None]
        nt += 1 if loose else 0
        if ok:
            if n < 4000:
                ctx.outcome(hash(tuple(obs_rows[n])) & 0xFFFFFFFFFFFF)
            continue
        ctx.violation(dict(sig0, symptom="no-consistent-bound-explains-windows"),
                      dict(case, row=n, row_info=rows[n]),
                      {"observed": obs_rows[n], "windows_passing_the_other_filters": loose})
    ctx.case(N, nt)


# =====================================================================================
# tokens
# =====================================================================================
def _tok_rows(R, first, mode, wide=False):
    """rows (segs, ref_len, a, b, R_tensor).  mode 'omitted': ref_len == R == tensor width;
    'padded': a list of R <= 2 segments followed by one token the slice would keep, ref_len = R;
    'every': every 3-list x ref_len 0..3."""
    rows = []
    firsts = SEGS_LEGAL if first is None else [SEGS_LEGAL[first]]
    lists = [()] if R == 0 else [
        (f,) + rest for f in firsts for rest in itertools.product(SEGS_LEGAL, repeat=R - 1)
    ]
    for segs in lists:
        for a, b in (SLICES_WIDE if wide else SLICES):
            if mode == "omitted":
                rows.append((segs, R, a, b))
            elif mode == "padded":
                lo = max(a, 0)
                rows.append((segs + ((lo, max(b, lo)),), R, a, b))
            else:
                for ref_len in range(R + 1):
                    rows.append((segs, ref_len, a, b))
    return rows


def _shard_tok(ctx, spec, tier, seed):
    first = spec["first"]
    wide = tier == "thorough"
    if first is not None:
        memo = {}  # inputs are shared by the four (partial, retain) combinations
        for partial in (False, True):
            for retain in (False, True):
                base = {"partial": partial, "retain": retain}
                _eval_tok(ctx, dict(base, R=3, rows={"first": first, "mode": "omitted", "wide": wide},
                                    lens_given=False, module=(first + partial) % 2 == 0), seed, memo)
                if tier == "thorough":
                    _eval_tok(ctx, dict(base, R=3, rows={"first": first, "mode": "every", "wide": wide},
                                        lens_given=True, module=False), seed, memo)
        return
    partial, retain = spec["partial"], spec["retain"]
    base = {"partial": partial, "retain": retain}
    for R in (0, 1, 2):
        _eval_tok(ctx, dict(base, R=R, rows={"first": None, "mode": "omitted", "wide": wide}, lens_given=False,
                            module=R == 1), seed)
        _eval_tok(ctx, dict(base, R=R, rows={"first": None, "mode": "padded", "wide": wide}, lens_given=True,
                            module=R == 2), seed)
        if R:
            _eval_tok(ctx, dict(base, R=R, rows={"first": None, "mode": "every", "wide": wide}, lens_given=True,
                                module=False), seed)
    for R in (0, 1):
        for row in _tok_rows(R, None, "omitted", wide):
            _eval_tok(ctx, dict(base, R=R, rows=[row], lens_given=False, module=False), seed)
            _eval_tok(ctx, dict(base, R=R, rows=[row], lens_given=True, module=False), seed)
    # token sequences without segment information: 'the return values will always be empty'
    ctx.case(1)
    try:
        c, cl = F.chunk_token_sequences_by_slices(torch.tensor([[1, 2, 3]]), torch.tensor([[0, 2]]),
                                                  None, partial, retain)
        if c.numel() or cl.numel():
            raise AssertionError(f"not empty: {tuple(c.shape)} {tuple(cl.shape)}")
    except Exception as e:
        ctx.violation({"api": "chunk_token_sequences_by_slices", "symptom": "2-dim-refs", "type": type(e).__name__},
                      {"part": "tok", "call": dict(base, R=0, rows=[], lens_given=False, module=False), "seed": seed},
                      _raise_detail(e))
    ex = [[11, 0, 2], [22, 2, 5], [33, -1, -1]]
    if partial and not retain:
        ctx.sample({"part": "tok", "ref": ex, "slice": [1, 5], "partial": partial, "retain": retain,
                "oracle_chunk": O.chunk_tokens(ex, 3, 1, 5, partial, retain)})


def _is_subsequence(small, big):
    it = iter(big)
    return all(any(x == y for y in it) for x in small)


def tok_symptoms(ref, ref_len, a, b, partial, retain, obs):
    """Classify the difference between the observed kept triples ``obs`` of one token sequence
    and the oracle; [] when they agree (degenerate slices a >= b: only the weak demand)."""
    ref = [tuple(t) for t in ref]
    obs = [tuple(t) for t in obs]
    exp = O.chunk_tokens(ref, ref_len, a, b, partial, retain)
    if obs == exp:
        return []
    out = []
    known = [t for t in ref[:ref_len] if O.segment_known(t[1], t[2])]
    orig = {t[0]: t for t in ref}
    obs_ids, exp_ids = [t[0] for t in obs], [t[0] for t in exp]
    if a >= b:
        ids_ok = _is_subsequence(obs_ids, [t[0] for t in known])
    else:
        ids_ok = obs_ids == exp_ids
    if not ids_ok:
        missing = [t for t in exp if t[0] not in obs_ids]
        extra = [i for i in obs_ids if i not in exp_ids]
        if a >= b:
            sym = "kept-not-a-sublist-of-known-tokens"
        elif (partial and missing and not extra and _is_subsequence(obs_ids, exp_ids)
              and all(orig[t[0]][1] == orig[t[0]][2] and orig[t[0]][1] in (a, b) for t in missing)):
            sym = "partial-drops-contained-empty-segment-on-slice-edge"
        elif not _is_subsequence(obs_ids, [t[0] for t in ref]):
            sym = "tokens-out-of-order-or-unknown"
        elif any(i in [t[0] for t in ref[ref_len:]] for i in extra):
            sym = "kept-token-beyond-ref_lens"
        elif any(not O.segment_known(orig[i][1], orig[i][2]) for i in extra):
            sym = "kept-token-with-missing-boundary"
        else:
            sym = "wrong-tokens-kept"
        out.append(sym)
    # boundaries of the tokens that were kept
    shift = 0 if retain else a
    mine = [t for t in obs if t[0] in orig]
    bad = [t for t in mine if (t[1], t[2]) != (orig[t[0]][1] - shift, orig[t[0]][2] - shift)]
    if bad:
        if not retain and all((t[1], t[2]) == (orig[t[0]][1] + a, orig[t[0]][2] + a) for t in mine):
            sym = "boundary == original + slice_start"
        elif all((t[1], t[2]) == (orig[t[0]][1], orig[t[0]][2]) for t in bad):
            sym = "boundaries-not-shifted"
        elif retain:
            sym = "boundaries-changed-despite-retain"
        else:
            sym = "wrong-boundaries"
        out.append(sym)
    return out


def _tok_inputs(call, seed, memo):
    key = None
    if memo is not None and isinstance(call["rows"], dict):
        key = json.dumps([call["R"], call["rows"]], sort_keys=True)
        if key in memo:
            return memo[key]
    rows = call["rows"]
    if isinstance(rows, dict):
        rows = _tok_rows(call["R"], rows["first"], rows["mode"], rows.get("wide", False))
    else:
        rows = [(tuple(tuple(sg) for sg in segs), n, a, b) for segs, n, a, b in rows]
    N = len(rows)
    R = len(rows[0][0]) if N else 0
    rng = random.Random(seed * 15485863 + R)
    tok0 = rng.randint(0, 50)
    toks = [tok0 + 10 * (t + 1) for t in range(R)]  # distinct id per position
    cache = {}
    data = []
    for segs, _, _, _ in rows:
        d = cache.get(segs)
        if d is None:
            d = cache[segs] = [(toks[t], sg[0], sg[1]) for t, sg in enumerate(segs)]
        data.append(d)
    refs = torch.tensor(data, dtype=torch.long).view(N, R, 3)
    slices = torch.tensor([[a, b] for _, _, a, b in rows], dtype=torch.long).view(N, 2)
    ref_lens = torch.tensor([n for _, n, _, _ in rows], dtype=torch.long)
    out = (rows, data, refs, slices, ref_lens)
    if key is not None:
        memo[key] = out
    return out


def _eval_tok(ctx, call, seed, memo=None):
    partial, retain, lens_given = call["partial"], call["retain"], call["lens_given"]
    rows, data, refs, slices, ref_lens = _tok_inputs(call, seed, memo)
    N = len(rows)
    if N == 0:
        return
    R = len(rows[0][0])
    refs, slices = refs.clone(), slices.clone()
    ref_lens = ref_lens.clone() if lens_given else None
    case = {"part": "tok", "call": call, "seed": seed}
    sig0 = {"api": "chunk_token_sequences_by_slices", "partial": partial, "retain": retain}
    try:
        if call["module"]:
            chunked, clens = M.ChunkTokenSequencesBySlices(partial, retain)(refs, slices, ref_lens)
        else:
            chunked, clens = F.chunk_token_sequences_by_slices(refs, slices, ref_lens, partial, retain)
        if chunked.ndim != 3 or chunked.size(0) != N or chunked.size(2) != 3 or clens.shape != (N,):
            raise AssertionError(f"shapes {tuple(chunked.shape)} {tuple(clens.shape)}")
        if chunked.dtype != torch.long or clens.dtype != torch.long:
            raise AssertionError("dtypes")
        if N and (int(clens.max()) > chunked.size(1) or int(clens.min()) < 0):
            raise AssertionError("chunked_lens exceeds the width of chunked")
        chunked, clens = chunked.tolist(), clens.tolist()
    except Exception as e:
        ctx.case(N, N)
        ctx.violation(dict(sig0, symptom="raises", type=type(e).__name__, zero_R=R == 0,
                           ref_lens="given" if lens_given else "omitted"),
                      case, dict(_raise_detail(e), first_rows=rows[:3]))
        return
    nt = degenerate = 0
    seen = Counter()
    for n, (segs, ref_len, a, b) in enumerate(rows):
        obs = [tuple(t) for t in chunked[n][: clens[n]]]
        ref = data[n]
        exp = O.chunk_tokens(ref, ref_len, a, b, partial, retain)
        known = [t for t in ref[:ref_len] if O.segment_known(t[1], t[2])]
        if n < 3000:
            ctx.outcome(hash(tuple(obs)) & 0xFFFFFFFFFFFF)
        if obs == exp:
            nt += 1 if (known and a < b) else 0
            continue
        vcase = dict(case, row=n, row_info={"ref": ref, "ref_len": ref_len, "slice": [a, b]})
        if a >= b:
            degenerate += 1
        else:
            nt += 1 if known else 0
        for sym in tok_symptoms(ref, ref_len, a, b, partial, retain, obs):
            seen[sym] += 1
            if seen[sym] <= 3:
                ctx.violation(dict(sig0, symptom=sym), vcase, {"expected": exp, "observed": obs})
    for sym, cnt in seen.items():  # instances beyond the first three: counted, not stored
        if cnt > 3:
            ctx.viol_count[json.dumps(dict(sig0, symptom=sym), sort_keys=True)] += cnt - 3
    ctx.case(N, nt)
    if degenerate:
        ctx.count("tok_degenerate_slice_rows_differing", degenerate)
