"""C17: utterance ORDER.  Id menus in which one id is a proper prefix of another, crossed with file
suffixes whose first character sorts before and after the character that follows the shared prefix
(so that "sorted by file name" and "sorted by utterance id" disagree), on every command whose output
depends on the order of the utterances."""

import itertools
import os

import torch

from pydrobert.torch import command_line as C

from mc.oracles import cli as O
from checks._c17_common import tok2id, strip, io_flags, distractor_names, save
from checks._c17_seams import run_cmd, ok, write, read
from checks import _c17_other as OT
from checks import _c17_conv as CV

# creation order is neither id order nor reverse id order
MENUS = [["u10", "u1", "u2"], ["ab", "a", "a-b"], ["x1", "x", "x_1", "x.1"]]
SUFFIXES = [".pt", "_x.pt", ".x"]  # '.' < '0'..'9' < '_' < 'a'; '-' < '.'
PREFIXES = ["", "p_"]


def cases_ord(tier, seed):
    fresh = {"sub": True, "er": True}
    for ids, suffix, prefix in itertools.product(MENUS, SUFFIXES, PREFIXES):
        N = len(ids)
        lens = [2, 1, 2, 1][:N]
        # ---- subsetting by id ----------------------------------------------------------
        for crit, value in (("first-n", 1), ("first-n", 2), ("last-n", 1), ("last-n", 2), ("first-ratio", 0.5),
                            ("last-ratio", 0.5), ("shortest-n", 2), ("longest-n", 1)):
            for only, style in ((True, "copy"), (False, "link")):
                if prefix and only and crit.endswith("ratio"):
                    continue
                c = dict(fam="ord", kind="sub", ids=ids, lens=lens, presence="all", prefix=prefix, suffix=suffix,
                         crit=crit, value=value, style=style, only=only)
                if fresh["sub"] and suffix == "_x.pt" and crit == "last-n":
                    c["fresh"] = True
                    fresh["sub"] = False
                yield c
        # ---- error rates: per-utterance order, merge of the two listings ----------------
        pairs = [(["a", "b"], ["a"]), (["a"], ["c", "a"]), (["b", "c"], ["b", "c"]), (["c"], [])][:N]
        utts = [[u, r, h] for u, (r, h) in zip(ids, pairs)]
        base = dict(fam="ord", kind="er", utts=utts, prefix=prefix, suffix=suffix, costs=None, batch=100, per_utt=False,
                    distances=False, id2token=False, replace=None, ignore=None, layout="explicit", out="stdout",
                    swap=False)
        for per_utt, batch in ((True, 100), (True, 1), (False, 2), (True, len(ids))):
            c = dict(base, per_utt=per_utt, batch=batch)
            if fresh["er"] and suffix == "_x.pt" and per_utt:
                c["fresh"] = True
                fresh["er"] = False
            yield c
        srt = sorted(ids)
        for mr, mh in (([srt[0]], []), ([], [srt[0]]), ([srt[1]], []), ([], [srt[1]]), ([srt[0]], [srt[-1]]),
                       ([srt[1]], [srt[0]])):
            for per_utt, distances in itertools.product((False, True), repeat=2):
                yield dict(base, per_utt=per_utt, distances=distances, batch=2, missing={"ref": mr, "hyp": mh},
                           warn_missing=True)
        yield dict(base, missing={"ref": [srt[1]], "hyp": []}, warn_missing=False)
        yield dict(base, missing={"ref": [], "hyp": [srt[0]]}, warn_missing=False, per_utt=True)
    # ---- relations across suffixes: the same ids must give the same result whatever the suffix
    for ids, prefix in itertools.product(MENUS, PREFIXES):
        for n in (1, 2):
            yield dict(fam="ord", kind="randmeta", ids=ids, prefix=prefix, n=n, unit="n")
        yield dict(fam="ord", kind="randmeta", ids=ids, prefix=prefix, n=0.5, unit="ratio")
        yield dict(fam="ord", kind="trnmeta", ids=ids, prefix=prefix)
    yield from cases_big(tier, seed)
    yield from cases_alias(tier, seed)


# ---- late time stamps with small frame shifts: frame indices beyond float32's exact range (2**24), beyond the
# point where float32 rounding exceeds one frame (2**25), and beyond int32; token ids around the int32 limit
BIG_BASES = [2 ** 25 + 1, 2 ** 26 + 12345677, 2 ** 31 + 3]


def cases_big(tier, seed):
    for B, (prefix, suffix), big_ids in itertools.product(BIG_BASES, (("", ".pt"), ("p_", ".x")), (False, True)):
        for fs in (0.0625, 1):
            utts = [dict(id="u2", wfn="u2", chan="A", segs=[["a", B, B + 3], ["b", B + 5, B + 6]]),
                    dict(id="p_0", wfn="p_0", chan="A", segs=[["c", 1, 2], ["a", B + 1, B + 2]])]
            yield dict(fam="ord", kind="ctm", utts=utts, prefix=prefix, suffix=suffix, fs=fs, map=None, map_back=None,
                       swap=big_ids, rev=big_ids, size="full", big_ids=big_ids)
        for point in (False, True):
            segs = [["a", B, B], ["b", B + 7, B + 7]] if point else [["a", B, B + 3], ["b", B + 3, B + 8]]
            utts = [dict(id="u2", point=point, segs=segs, T=B + 8),
                    dict(id="p_0", point=point, segs=[["c", 2, 2]] if point else [["c", 0, 2]], T=3)]
            yield dict(fam="ord", kind="tg", utts=utts, prefix=prefix, suffix=suffix, tgsuf=".TextGrid", fs=0.0625,
                       len="infer", precision=6, fill=False, method=None, tier=None, swap=False, size="full",
                       big_ids=big_ids)
    for prefix, suffix in (("", ".pt"), ("p_", ".x")):
        for size in ("full", "skip", "feat"):
            yield dict(fam="ord", kind="trn", utts=[["u2", ["a", "c"]], ["p_0", ["b"]], ["u.x", ["c", "c", "a"]]],
                       prefix=prefix, suffix=suffix, size=size, swap=False, unk=False, alt=False, big_ids=True)
        big = 2 ** 31 + 1
        yield dict(fam="ord", kind="ali", alis=[["u2", [big, big, 5]], ["p_0", [2 ** 24 + 1, 2 ** 24 + 2]]],
                   prefix=prefix, suffix=suffix, distract=True, feat=True)


def cases_alias(tier, seed):
    """--file-suffix '' (a legal spelling: every name ends with it) on a few cases of every family"""
    gens = (("trn", CV.cases_trn), ("ctm", CV.cases_ctm), ("tg", CV.cases_tg), ("ali", CV.cases_ali), ("er", OT.cases_er),
            ("sub", OT.cases_sub), ("stat", OT.cases_stat))
    for kind, gen in gens:
        per_kind = {}
        for c in gen("quick", seed):
            if c["prefix"] != "p_" or c["suffix"] != ".x":
                continue
            sub = c.get("kind", kind)
            n = max(len(c.get(k, ())) for k in ("utts", "alis", "refs", "lens", "Ts"))
            if n < 3 and sub != "chunk":
                continue
            if per_kind.get(sub, 0) >= (4 if kind == "stat" else 6):
                continue
            per_kind[sub] = per_kind.get(sub, 0) + 1
            for prefix in ("", "p_"):
                c2 = dict(c, fam="ord", kind=kind, prefix=prefix, suffix="")
                if kind == "stat":
                    c2["stat_kind"] = sub
                c2.pop("real", None)
                c2.pop("fresh", None)
                yield c2


def _eval_randmeta(env, case):
    """--rand-* with a fixed --seed: the selection is a function of the set of utterance ids and the seed,
    so it cannot change with the file suffix (documented: the seed is there 'for determinism')."""
    ids, prefix = case["ids"], case["prefix"]
    api = "subset-torch-spect-data-dir"
    sels = {}
    for suffix in SUFFIXES:
        src, dest = env.p("src" + suffix), env.p("dest" + suffix)
        for i, u in enumerate(ids):
            save(torch.full((1 + i % 2, 2), float(i)), os.path.join(src, prefix + u + suffix))
        for name in distractor_names(prefix, suffix):
            save(torch.zeros(1, 2), os.path.join(src, name))
        args = [src, dest, "--only", "--rand-" + case["unit"], case["n"], "--seed", 7, "--num-workers", 0]
        res = run_cmd(C.subset_torch_spect_data_dir, args + io_flags(prefix, suffix))
        env.ev(api, ["rand", suffix])
        if not ok(res):
            env.raises(api, res, criterion="rand")
            return
        sel = sorted(strip(x, prefix, suffix) for x in os.listdir(dest))
        want_n = min(case["n"], len(ids)) if case["unit"] == "n" else int(len(ids) * case["n"])
        if len(sel) != want_n or not set(sel) <= set(ids):
            env.viol({"api": api, "symptom": "wrong-selection", "criterion": "rand"},
                     {"selected": sel, "expected_size": want_n, "ids": ids})
            return
        sels[suffix] = sel
    if len(set(map(tuple, sels.values()))) != 1:
        env.viol({"api": api, "symptom": "seeded-selection-depends-on-file-suffix", "criterion": "rand"},
                 {"ids": ids, "selected_per_suffix": sels})
        return
    env.ctx.outcome(sels)


def _eval_trnmeta(env, case):
    """token dir -> trn: same utterances, same transcripts => same trn text whatever the file suffix; and
    the listing follows the utterance ids (the order every other reader of the directory uses)."""
    ids, prefix = case["ids"], case["prefix"]
    t2i = tok2id(env.seed)
    tfile = write(env.p("tok.map"), O.token2id_text(t2i, True))
    api = "torch-token-data-dir-to-trn"
    texts = {}
    for suffix in SUFFIXES:
        d, out = env.p("ref" + suffix), env.p("out" + suffix + ".trn")
        for i, u in enumerate(ids):
            toks = [O.TOKENS[(i + j) % 3] for j in range(1 + i % 2)]
            save(torch.tensor([t2i[t] for t in toks]), os.path.join(d, prefix + u + suffix))
        for name in distractor_names(prefix, suffix):
            save(torch.tensor([0]), os.path.join(d, name))
        res = run_cmd(C.torch_token_data_dir_to_trn, [d, tfile, out, "--num-workers", 0] + io_flags(prefix, suffix))
        env.ev(api, ["trn", suffix])
        if not ok(res):
            env.raises(api, res, size="skip")
            return
        texts[suffix] = read(out)
    got = [u for u, _ in O.parse_trn(texts[SUFFIXES[0]])]
    if len(set(texts.values())) != 1:
        env.viol({"api": api, "symptom": "output-depends-on-file-suffix"}, {"ids": ids, "text_per_suffix": texts})
    elif got != sorted(ids):
        env.viol({"api": api, "symptom": "utterances-not-listed-by-id"}, {"ids": sorted(ids), "listed": got})
    else:
        env.ctx.outcome(texts[SUFFIXES[0]])


DISPATCH = {"sub": OT.eval_sub, "er": OT.eval_er, "trn": CV.eval_trn, "ctm": CV.eval_ctm, "tg": CV.eval_tg,
            "ali": CV.eval_ali}


def eval_ord(env, case):
    if case["kind"] == "stat":
        OT.eval_stat(env, dict(case, kind=case["stat_kind"]))
    elif case["kind"] in DISPATCH:
        DISPATCH[case["kind"]](env, case)
    else:
        env.begin(case)
        {"randmeta": _eval_randmeta, "trnmeta": _eval_trnmeta}[case["kind"]](env, case)
