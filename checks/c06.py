"""C06 - LookupLanguageModel == Katz back-off on the table; ARPA reader (E1)."""

import io
import itertools
import math
import os
import random
import shutil

import torch

from pydrobert.torch.modules import LookupLanguageModel
from pydrobert.torch.data import parse_arpa_lm

from mc.runner import Ctx
from mc.oracles import katz as O

PROP = "C06"
LEVEL = "exploration"
RULE = (
    "tables: vocabulary V in {2,3} (V=1 with an outside sos for the sparse order-4/5 shapes), order N "
    "in 1..4 (quick; order 4 = sparse shapes only) / 1..5 (thorough), sos inside "
    "({0,V-1}) and outside ({-1,V,V+2}) the vocabulary; the key alphabet is the vocabulary plus an "
    "outside sos (nA symbols). Per (V,sos,N) the set of listed n-grams of order >= 2 is enumerated, "
    "never drawn (families() holds the exact plan): 'tristate-all' (N=2,nA=2): every unigram and "
    "every bigram in each of the three states absent / finite / listed-as-log-0 (covers all 2^4 "
    "bigram sets); 'subsets': ALL subsets with >=1 top-order n-gram (N=2,nA=3: 511; N=3,nA=2: "
    "4080); 'bounded' K: all subsets of the candidate universe (nA^2+..+nA^N n-grams) of size <= K "
    "(quick K<=3; thorough up to K=5 for N=2, K=4 for N=3 (V=2,sos=-1), K=3 for N=4); 'cobounded': "
    "all subsets missing <= K n-grams; 'bounded2': the size<=K subsets again with every listed entry "
    "finite / log-0 in all combinations; 'structured': complete, complete top order only, complete "
    "minus one, complete with one log-0, all n-grams ending in / starting with / avoiding a token, "
    "the table induced by EVERY corpus string of length N..L (also with all lower orders dropped), "
    "and 40 fixed (seed-independent) pseudo-random densities; 'corpus': the corpus-induced tables "
    "alone. SPARSE ORDER 4 (quick: every shape with <=2 n-grams of order 2..4 over a 2-symbol key "
    "alphabet with sos inside (V=2) and outside (V=1), corpus-induced shapes over 3 symbols; thorough: "
    "<=3 n-grams, 3-symbol alphabets with <=2, and order 5 with <=2 / corpus strings) - orders missing "
    "for a history while longer contexts carry back-offs; there every back-off weight is non-zero, "
    "non-dyadic and different per context (tolerance 1e-4), and EVERY history is also evaluated ALONE "
    "(batch size 1: scalar idx for all lengths, forward and chunked for the longest) besides per "
    "element and in batches; other tables get the alone pass on every 16th (quick) / 4th table. Lower-order suffixes and contexts "
    "may be missing. Outside 'tristate-all' the unigram states (all finite / one absent / one log-0 "
    "with a back-off) rotate with the table index (they do not alter the trie shape). Values come "
    "from a quarter-integer grid (VERIF_SEED = filler only). Per table: EVERY history of length "
    "0..3 (quick) / 0..4 over the key alphabet, as one batch per length; forward call for every "
    "length; calc_full_log_probs_chunked with every chunk size 1..T+2 (quick: for the shorter "
    "lengths chunk 1 only through the forward call, then chunk 2 and t+2); the longest batch also as "
    "an offset view behind foreign rows (chunked on every table, forward on every other) and as a "
    "transposed-dense view (every other table), as a column slice of a wider batch and as every second row of a taller "
    "tensor (dense columns, row stride != batch size; chunk sizes 2 and T+2); scalar idx for every index as int and as negative "
    "0-dim / 1-element tensor; per-element idx: for every minimum m one batch holding every "
    "(history, idx>=m) pair, all (T+1)^B idx vectors for B=1 on every table, B=2 on every (quick: every other) "
    "table and for B=3 on every 8th (quick) / 4th (thorough) table; state_dict (every other table also through torch.save/load) "
    "-> fresh LookupLanguageModel(V, sos) -> load_state_dict -> full / chunked / scalar / vector "
    "calls again. Guards on every call: the tensors handed in (hist, idx, views, a foreign entry in "
    "prev and the prev dict itself; the caller's prob_dicts when destructive=False; token2id) are "
    "unchanged afterwards; two kept results (a forward call and a scalar-idx call) are unchanged after "
    "all later calls, after save/load and after the reuse below. Object history: the table is also "
    "loaded (load_state_dict) into the object that was constructed from and called with the PREVIOUS "
    "table of the same (V, sos) in the shard (more or fewer n-grams, at family borders another order) "
    "and must then answer like the fresh instance, and the result kept from that object before the "
    "load must not change; one dedicated shard drives ONE LookupLanguageModel(17,-1) through "
    "load_state_dict of X then Y for every ordered pair of five tables (order 1/2/3, 20..300 nodes, "
    "uint8<->int16 offsets both ways) with lengths and batch sizes changing between the calls. "
    "On every 4th table (all in thorough) int32/int16 hist and 0-dim / 1-dim idx tensors: the docs "
    "name only long, so a raise is accepted, a returned result must equal the oracle. "
    "ARPA: every table is written in two layouts (explicit vs implicit zero back-offs, "
    "blanks vs tabs, fixed vs exponent numbers, preamble) x two token namings and read from a file "
    "object (both layouts) and from a path (one layout per table, alternating), base 10 / base e / "
    "default, with and without token2id; the result object of the previous parse (other text) must be "
    "unchanged after the next parse (no state shared between calls). Width "
    "crossings: levels of 236..300 nodes around the uint8/int16 offset limits (orders 2..4) and "
    "V=253..256 around the uint8/int16 id limit. One evaluation = one compared next-token "
    "distribution or one parse; a non-trivial case = one (table of order>=2, padded context) pair "
    "(a back-off or a higher-order hit decides the value); tables are distinct by construction "
    "within a family and carry different values across families."
)
ASSUMPTIONS = [
    "small scope: V<=3, order<=3/4, history length<=3/4 (plus the width-crossing tables with V<=254)",
    "grid values are exactly representable so sums are exact; comparison tolerance 1e-6, -inf must match -inf",
    "log-0 is written -99 in ARPA text (the reader has no spelling for -inf); the expected entry is then -99",
    "history tokens are vocabulary ids or the start symbol; back-off weights are finite",
    "hist / idx are documented as long tensors: int32/int16 are probed but a raise there is not a violation; "
    "uint8 (cannot hold sos=-1 or negative idx) and float inputs are not probed",
    "prev carries no state for this model: only 'handed-in dict and its tensors unchanged' is checked",
    "for the V>=253 tables only histories of length<=1 plus 600 structured length-2 histories are used",
    "TorchScript-compiled and CUDA variants not explored",
]
BUDGET_S = {"quick": 240, "thorough": 2400}
TOL = 1e-6
NEG_INF = float("-inf")
PER_SHARD = {"quick": 120, "thorough": 400}


# =======================================================================================
# enumeration of tables
def alphabet(V, sos):
    return list(range(V)) + ([] if 0 <= sos < V else [sos])


def universe(A, N):
    """Candidate n-grams of order 2..N, order-major, lexicographic in the alphabet's order."""
    out = []
    for n in range(2, N + 1):
        out.extend(itertools.product(A, repeat=n))
    return out


def families(tier):
    """The list of enumerated families; each is a dict understood by gen_structs.

    Table-driven: (V, sos) -> per order a list of (family, K).  nA = size of the key alphabet;
    the universe of candidate n-grams of order 2..N has nA^2 + ... + nA^N elements.
    """
    q = tier == "quick"
    fams = []

    def add(V, sos, N, fam, K=None, light=False):
        f = dict(V=V, sos=sos, N=N, fam=fam)
        if K is not None:
            f["K"] = K
        if light:  # fewer redundant calls per table (as in the quick tier)
            f["light"] = True
        if fam == "structured":
            nA = len(alphabet(V, sos))
            f["L"] = (N + 1 if nA <= 3 else N) if q else (N + 2 if nA <= 3 else N + 1)
        if fam == "corpus":
            f["L"] = K
            del f["K"]
        fams.append(f)

    for V in (2, 3):
        for sos in (0, V - 1, -1, V, V + 2):
            add(V, sos, 1, "uni")  # every unigram absent / finite / log-0
    if q:
        plan = {
            # order 2
            (2, 0, 2): [("tristate-all", None), ("structured", None)],
            (2, 1, 2): [("subsets", None), ("bounded2", 2)],
            (2, -1, 2): [("subsets", None), ("bounded2", 2), ("structured", None)],
            (2, 2, 2): [("bounded", 2)],
            (2, 4, 2): [("bounded", 2)],
            (3, 0, 2): [("subsets", None), ("bounded2", 1), ("structured", None)],
            (3, 2, 2): [("bounded", 2)],
            (3, -1, 2): [("bounded", 3), ("cobounded", 1), ("bounded2", 1), ("structured", None)],
            (3, 3, 2): [("bounded", 1)],
            (3, 5, 2): [("bounded", 1)],
            # order 3
            (2, 0, 3): [("subsets", None), ("bounded2", 1), ("structured", None)],
            (2, 1, 3): [("bounded", 2)],
            (2, -1, 3): [("bounded", 2), ("bounded2", 1), ("structured", None)],
            (2, 2, 3): [("bounded", 1)],
            (2, 4, 3): [("bounded", 1)],
            (3, 0, 3): [("bounded", 2), ("structured", None)],
            (3, 2, 3): [("bounded", 1)],
            (3, -1, 3): [("bounded", 1), ("structured", None)],
            (3, 3, 3): [("bounded", 1)],
            (3, 5, 3): [("bounded", 1)],
            # order 4, sparse: all shapes with <= 2 n-grams of order 2..4 over a 2-symbol key alphabet
            # (sos inside: V=2; sos outside: V=1), corpus-induced shapes over 3 symbols
            (2, 0, 4): [("bounded", 2)],
            (1, -1, 4): [("bounded", 2)],
            (2, -1, 4): [("corpus", 4)],
            (3, 0, 4): [("corpus", 4)],
        }
    else:
        plan = {
            (2, 0, 2): [("tristate-all", None), ("structured", None)],
            (2, 1, 2): [("tristate-all", None), ("structured", None)],
            (2, -1, 2): [("subsets", None), ("bounded2", 3), ("structured", None)],
            (2, 2, 2): [("subsets", None), ("bounded2", 2)],
            (2, 4, 2): [("subsets", None)],
            (3, 0, 2): [("subsets", None), ("bounded2", 3), ("structured", None)],
            (3, 2, 2): [("subsets", None), ("bounded2", 2)],
            (3, -1, 2): [("bounded", 5), ("cobounded", 2), ("bounded2", 2), ("structured", None)],
            (3, 3, 2): [("bounded", 3), ("cobounded", 1)],
            (3, 5, 2): [("bounded", 3)],
            (2, 0, 3): [("subsets", None), ("bounded2", 2), ("structured", None)],
            (2, 1, 3): [("subsets", None), ("structured", None)],
            (2, -1, 3): [("bounded", 4, True), ("bounded2", 2), ("structured", None)],
            (2, 2, 3): [("bounded", 2)],
            (2, 4, 3): [("bounded", 2)],
            (3, 0, 3): [("bounded", 3), ("bounded2", 2), ("structured", None)],
            (3, 2, 3): [("bounded", 2)],
            (3, -1, 3): [("bounded", 2), ("bounded2", 1), ("structured", None)],
            (3, 3, 3): [("bounded", 1)],
            (3, 5, 3): [("bounded", 1)],
            (2, 0, 4): [("bounded", 3), ("bounded2", 2), ("structured", None)],
            (2, 1, 4): [("bounded", 2)],
            (2, -1, 4): [("bounded", 2), ("bounded2", 1), ("structured", None)],
            (2, 2, 4): [("bounded", 1)],
            (2, 4, 4): [("bounded", 1)],
            (3, 0, 4): [("bounded", 2), ("structured", None)],
            (3, 2, 4): [("bounded", 1)],
            (3, -1, 4): [("bounded", 1), ("structured", None)],
            (3, 3, 4): [("bounded", 1)],
            (3, 5, 4): [("bounded", 1)],
            (1, -1, 4): [("bounded", 3), ("bounded2", 2)],
            (1, 3, 4): [("bounded", 2)],
            # order 5 (histories of length 4 = all contexts)
            (2, 0, 5): [("bounded", 2), ("corpus", 6)],
            (1, -1, 5): [("bounded", 2), ("corpus", 6)],
            (2, -1, 5): [("corpus", 5)],
        }
    for (V, sos, N), lst in plan.items():
        for e in lst:
            add(V, sos, N, *e)
    return fams


def _has_top(keys, N):
    return any(len(k) == N for k in keys)


def gen_structs(f):
    """Yield {key: state} for orders >= 2 ('f' finite, 'i' listed with log-probability -inf)
    (family 'uni' / 'tristate-all': also unigram keys as 1-tuples, state 'a' never stored)."""
    V, sos, N, fam = f["V"], f["sos"], f["N"], f["fam"]
    A = alphabet(V, sos)
    U = universe(A, N)
    if fam == "uni":
        for states in itertools.product("afi", repeat=len(A)):
            s = {(a,): st for a, st in zip(A, states) if st != "a"}
            if s:
                yield s
    elif fam == "tristate-all":
        keys = [(a,) for a in A] + U
        for states in itertools.product("fai", repeat=len(keys)):
            s = {k: st for k, st in zip(keys, states) if st != "a"}
            if _has_top(s, N):
                yield s
    elif fam == "subsets":
        for r in range(1, len(U) + 1):
            for c in itertools.combinations(U, r):
                if _has_top(c, N):
                    yield {k: "f" for k in c}
    elif fam == "bounded":
        for r in range(1, f["K"] + 1):
            for c in itertools.combinations(U, r):
                if _has_top(c, N):
                    yield {k: "f" for k in c}
    elif fam == "cobounded":
        for r in range(0, f["K"] + 1):
            for c in itertools.combinations(U, r):
                s = {k: "f" for k in U if k not in c}
                if _has_top(s, N):
                    yield s
    elif fam == "bounded2":
        for r in range(1, f["K"] + 1):
            for c in itertools.combinations(U, r):
                if not _has_top(c, N):
                    continue
                for states in itertools.product("fi", repeat=r):
                    if "i" in states:  # the all-finite ones are in 'bounded'/'subsets'
                        yield dict(zip(c, states))
    elif fam == "structured":
        yield from _structured(A, N, U, f["L"])
    elif fam == "corpus":
        yield from _corpus(A, N, f["L"])
    else:  # pragma: no cover
        raise ValueError(fam)


def _structured(A, N, U, L):
    top = [k for k in U if len(k) == N]
    yield {k: "f" for k in U}  # complete
    yield {k: "f" for k in top}  # complete top order only, every lower order missing
    for k0 in U:  # complete minus one
        s = {k: "f" for k in U if k != k0}
        yield s
    for k0 in U:  # complete with one log-0 entry
        s = {k: "f" for k in U}
        s[k0] = "i"
        yield s
    for a in A:
        yield {k: "f" for k in U if k[-1] == a}
        yield {k: "f" for k in U if k[0] == a}
        s = {k: "f" for k in U if a not in k}
        if _has_top(s, N):
            yield s
    yield from _corpus(A, N, L)
    # fixed pseudo-random densities (the generator is NOT seeded by VERIF_SEED)
    for j in range(40):
        r = random.Random(9000 + j)
        dens = (0.15, 0.3, 0.5, 0.7, 0.85)[j % 5]
        s = {k: ("i" if r.random() < 0.1 else "f") for k in U if r.random() < dens}
        if not _has_top(s, N):
            s[top[j % len(top)]] = "f"
        yield s


def _corpus(A, N, L):
    """Tables induced by a corpus string: an n-gram is listed iff it occurs in the string (sparse: the
    last tokens of the string are contexts with back-offs but start no shorter n-gram)."""
    for ell in range(N, L + 1):
        for w in itertools.product(A, repeat=ell):
            s = {}
            for n in range(2, N + 1):
                for i in range(ell - n + 1):
                    s[w[i:i + n]] = "f"
            yield s
            if N > 2:  # top order only: all suffixes missing
                yield {k: "f" for k in s if len(k) == N}


def _lp(r):
    return -0.25 * r.randint(1, 40)


def _lb(r):
    return 0.25 * r.randint(-16, 2)


def make_dicts(f, struct, index, seed):
    """Attach grid values (filler: seed-dependent) to a structure."""
    V, sos, N = f["V"], f["sos"], f["N"]
    A = alphabet(V, sos)
    r = random.Random("%d/%s/%d/%d/%d/%d" % (seed, f["fam"], V, sos, N, index))
    dicts = [dict() for _ in range(N)]
    if N >= 4:
        # order >= 4: every back-off weight non-zero, non-dyadic and different per context (a dropped
        # or misplaced weight always shows); three decimals so the ARPA text is exact
        nb = [0]

        def lp(r):
            return round(-(0.2 + 0.05 * r.randint(0, 120)), 3)

        def lb(r):
            nb[0] += 1
            return round(-(0.11 + 0.07 * nb[0] + 0.003 * r.randint(0, 9)), 3)
    else:
        lp, lb = _lp, _lb
    if f["fam"] in ("uni", "tristate-all"):
        for a in A:
            st = struct.get((a,))
            if st is None:
                continue
            p = NEG_INF if st == "i" else _lp(r)
            dicts[0][a] = p if N == 1 else (p, _lb(r))
    else:
        # unigram pattern rotates with the index: all finite / one absent / one log-0 with back-off
        pat = index % (2 * len(A) + 1)
        for j, a in enumerate(A):
            if pat == 1 + j:
                continue
            p = NEG_INF if pat == 1 + len(A) + j else lp(r)
            dicts[0][a] = (p, lb(r))
    for k in sorted(k for k in struct if len(k) >= 2):
        st = struct[k]
        p = NEG_INF if st == "i" else lp(r)
        n = len(k)
        dicts[n - 1][k] = p if n == N else (p, lb(r))
    return dicts


# ---- width-crossing tables ------------------------------------------------------------------
def big_specs(tier):
    out = []
    # offsets: uint8 is chosen iff (nodes in a level + nodes in the level above - 1) <= 255 and the
    # stored dummy offset is (nodes + 1): cross both limits one node at a time
    for G in (236, 237, 238, 239, 253, 254, 255, 256, 300):
        out.append(dict(kind="big", V=17, sos=-1, N=2, counts=[G], T=2))
    out.append(dict(kind="big", V=18, sos=0, N=2, counts=[255], T=2))
    out.append(dict(kind="big", V=18, sos=17, N=2, counts=[300], T=2))
    for c in ([100, 255], [254, 100], [255, 256], [280, 300], [30, 270]):
        out.append(dict(kind="big", V=17, sos=-1, N=3, counts=c, T=2 if tier == "quick" else 3))
    out.append(dict(kind="big", V=6, sos=-1, N=4, counts=[40, 200, 290], T=3))
    # ids: uint8 iff V + shift + 1 <= 255
    for V, sos in ((253, -1), (254, -1), (254, 3), (255, 0), (256, 0)):
        out.append(dict(kind="big", V=V, sos=sos, N=2, counts=[260], T=2, hist="structured"))
    out.append(dict(kind="big", V=254, sos=-1, N=3, counts=[60, 270], T=2, hist="structured"))
    return out


def make_big(spec, seed):
    V, sos, N = spec["V"], spec["sos"], spec["N"]
    A = alphabet(V, sos)
    sr = random.Random("big/%d/%d/%d/%s" % (V, sos, N, spec["counts"]))  # structure: seed-independent
    r = random.Random("bigv/%d/%d/%d/%d/%s" % (seed, V, sos, N, spec["counts"]))
    dicts = [dict() for _ in range(N)]
    for a in A:
        dicts[0][a] = (_lp(r), _lb(r)) if N > 1 else _lp(r)
    for n in range(2, N + 1):
        want = spec["counts"][n - 2]
        keys = set()
        if len(A) ** n <= 4 * want:
            allk = list(itertools.product(A, repeat=n))
            sr.shuffle(allk)
            keys = set(allk[:want])
        else:
            prev = [k if isinstance(k, tuple) else (k,) for k in dicts[n - 2]]
            while len(keys) < want:
                if sr.random() < 0.7:  # extend a listed (n-1)-gram to the left (suffix present)
                    k = (sr.choice(A),) + sr.choice(prev)
                else:  # arbitrary: suffix probably missing
                    k = tuple(sr.choice(A) for _ in range(n))
                keys.add(k)
        for k in sorted(keys):
            p = NEG_INF if sr.random() < 0.03 else _lp(r)
            dicts[n - 1][k] = p if n == N else (p, _lb(r))
    return dicts


def structured_hists(dicts, V, sos, T):
    """History lists for the V>=253 tables: all of length <= 1, and for length 2..T the listed
    contexts, their neighbours and sos-containing ones (deterministic, at most 600)."""
    A = alphabet(V, sos)
    out = {0: [()], 1: [(a,) for a in A]}
    for t in range(2, T + 1):
        hs = []
        for d in dicts[1:]:
            for k in d:
                for cut in (k[:-1], k[1:], k):
                    h = tuple(cut)[-t:]
                    h = (A[(h[0] + 1) % V],) * (t - len(h)) + h
                    hs.append(h)
                    hs.append(h[:-1] + (A[(h[-1] + 1) % len(A)],))
                    hs.append((sos,) + h[1:])
        seen, uniq = set(), []
        for h in hs:
            if h not in seen:
                seen.add(h)
                uniq.append(h)
        out[t] = uniq[:600]
    return out


# =======================================================================================
# shards
def _count(f):
    return sum(1 for _ in gen_structs(f))


def shards(tier, seed):
    specs = []
    fams = families(tier)
    per = PER_SHARD[tier]
    small = []
    for i, f in enumerate(fams):
        n = _count(f)
        w = n * (1 + f["N"])  # rough weight
        if w <= per:
            small.append(i)
            continue
        S = max(1, round(w / (per * 3.0)))
        for r in range(S):
            specs.append({"kind": "fam", "fams": [i], "r": r, "S": S})
    # group the small families
    grp, acc = [], 0
    for i in small:
        grp.append(i)
        acc += _count(fams[i]) * (1 + fams[i]["N"])
        if acc > per * 3:
            specs.append({"kind": "fam", "fams": grp, "r": 0, "S": 1})
            grp, acc = [], 0
    if grp:
        specs.append({"kind": "fam", "fams": grp, "r": 0, "S": 1})
    bigs = big_specs(tier)
    for j in range(0, len(bigs), 3):
        specs.append({"kind": "big", "ids": list(range(j, min(j + 3, len(bigs))))})
    specs.append({"kind": "history"})
    # families are listed simplest first (order 1, then 2, ...) and the width-crossing tables last, so
    # the violations that are kept (first few per signature) are the smallest ones
    return specs


# =======================================================================================
# per-table evaluation
_HCACHE = {}


def all_hists(A, T):
    key = (tuple(A), T)
    if key not in _HCACHE:
        _HCACHE[key] = {t: list(itertools.product(A, repeat=t)) for t in range(T + 1)}
    return _HCACHE[key]


def _hist_tensor(hs, t):
    if t == 0:
        return torch.empty((0, len(hs)), dtype=torch.long)
    return torch.tensor(hs, dtype=torch.long).view(len(hs), t).t().contiguous()


def dicts_to_json(dicts):
    out = []
    for n, d in enumerate(dicts, 1):
        rows = []
        for k, v in d.items():
            key = [k] if n == 1 else list(k)
            if n < len(dicts):
                rows.append([key, v[0], v[1]])
            else:
                rows.append([key, v, None])
        out.append(rows)
    return out


def dicts_from_json(js):
    def fl(x):
        return float(x)  # accepts "-inf"

    dicts = []
    for n, rows in enumerate(js, 1):
        d = {}
        for key, p, b in rows:
            k = int(key[0]) if n == 1 else tuple(int(t) for t in key)
            d[k] = fl(p) if b is None else (fl(p), fl(b))
        dicts.append(d)
    return dicts


class _Model:
    """Everything the comparisons need for one table."""

    def __init__(self, V, sos, dicts, hists):
        self.V, self.sos, self.dicts = V, sos, dicts
        self.N = len(dicts)
        self.hists = hists
        self.T = max(hists)
        self.tol = 1e-4 if self.N >= 4 else TOL  # order >= 4 uses non-dyadic values (float32 sums)
        self.memo = {}
        self.exp = {}
        for t, hs in hists.items():
            rows = [[self.row(h[:s]) for h in hs] for s in range(t + 1)]
            self.exp[t] = torch.tensor(rows, dtype=torch.float32).view(t + 1, len(hs), V)
        self.h = {t: _hist_tensor(hs, t) for t, hs in hists.items()}

    def row(self, hist):
        c = O.padded_context(hist, self.N, self.sos)
        r = self.memo.get(c)
        if r is None:
            r = self.memo[c] = [O.katz(self.dicts, c, v) for v in range(self.V)]
        return r


def _agree(out, exp, tol=TOL):
    """None when equal, else the index of the first disagreeing element."""
    if tuple(out.shape) != tuple(exp.shape):
        return "shape"
    ok = (out == exp) | ((out - exp).abs() <= tol)
    if bool(ok.all()):
        return None
    bad = (~ok).nonzero()[0].tolist()
    return bad


def check_model(ctx, V, sos, dicts, hists, index, b3, base_case, save_load=False, every_chunk=True,
                carrier=None, alone=False):
    """Returns the constructed model object (after all its calls) so that the next table can be loaded
    into it (object history), or None.  ``carrier``: {"lm", "dicts" (json), "kept": (tensor, clone)}."""
    N = len(dicts)
    sos_in = 0 <= sos < V
    sig0 = {"api": "LookupLanguageModel", "order": N, "sos_in_vocab": sos_in}
    m = _Model(V, sos, dicts, hists)
    T = m.T
    ids_dtype = None

    base_case_ref = [base_case]

    def viol(mode, symptom, detail, **extra):
        if isinstance(detail, dict) and ids_dtype is not None:
            detail = dict(detail, ids_dtype=ids_dtype)
        ctx.violation(dict(sig0, mode=mode, symptom=symptom, **extra), dict(base_case_ref[0]), detail)

    try:
        if index % 2:
            lm = LookupLanguageModel(V, sos, [dict(d) for d in dicts], destructive=True)
        else:
            handed = [dict(d) for d in dicts]
            lm = LookupLanguageModel(V, sos, prob_dicts=handed)
            if handed != dicts:  # destructive=False promises a fresh copy
                viol("construct", "argument-modified", {"argument": "prob_dicts", "after": repr(handed)[:300]})
    except Exception as e:
        ctx.case(1, 1 if N > 1 else 0)
        viol("construct", "raises", {"error": repr(e)[-400:]}, type=type(e).__name__)
        return None
    sig0["offsets_dtype"] = str(lm.offsets.dtype).replace("torch.", "")
    ids_dtype = str(lm.ids.dtype).replace("torch.", "")
    ctx.count("offsets_" + sig0["offsets_dtype"])
    ctx.count("tables")
    nctx = len(m.memo)
    ctx.case(0, nctx if N > 1 else 0)
    for c in list(m.memo)[:4]:
        ctx.outcome(hash(tuple(m.memo[c])) & 0xFFFFFFFFFFFF)

    def compare(mode, fn, exp, info, reloaded=False, args=(), may_reject=False):
        """fn() -> tensor; exp tensor.  One library call, exp.numel()/V evaluated distributions.
        args: tensors handed to the call, which must come back unmodified.  may_reject: the input is
        outside the documented dtypes - a raise is accepted, a returned result must still be right."""
        ctx.case(exp.numel() // V)
        md = reloaded + "/" + mode if isinstance(reloaded, str) else (("reload/" + mode) if reloaded else mode)
        before = [a.clone() for a in args]
        try:
            out = fn()
            if isinstance(out, tuple):
                out = out[0]
            out = out.detach()
        except Exception as e:
            if may_reject:
                ctx.count("undocumented_dtype_rejected")
                return None
            viol(md, "raises", dict(info, error=repr(e)[-400:]), type=type(e).__name__)
            return None
        for k, (a, b) in enumerate(zip(args, before)):
            if a.shape != b.shape or not torch.equal(a, b):
                viol(md, "argument-modified", dict(info, argument=k, before=b, after=a))
        bad = _agree(out, exp, m.tol)
        if bad is None:
            return out
        if bad == "shape":
            viol(md, "wrong-shape", dict(info, expected=list(exp.shape), observed=list(out.shape)))
            return None
        o, e = out[tuple(bad)].item(), exp[tuple(bad)].item()
        if o != o:
            sym = "nan"
        elif e == NEG_INF or o == NEG_INF:
            sym = "wrong-zero-probability"
        else:
            sym = "wrong-logprob"
        viol(md, sym, dict(info, position=bad, expected=e, observed=o))
        return None

    kept = []  # (description, result tensor, its clone): must still be equal after all later calls

    def keep(what, out):
        if out is not None:
            kept.append((what, out, out.clone()))

    def check_kept(when):
        for what, out, cl in kept:
            if out.shape != cl.shape or not bool(((out == cl) | ((out != out) & (cl != cl))).all()):
                viol("kept-result", "result-changed-by-later-call", {"result_of": what, "checked": when,
                                                                     "before": cl, "after": out})

    def vec_batch(model, t, mmin, reloaded=False):
        hs = m.hists[t]
        B = len(hs)
        pairs = [(b, i) for b in range(B) for i in range(mmin, t + 1)]
        rot = (index * 5 + mmin) % len(pairs)
        pairs = pairs[rot:] + pairs[:rot]
        bs = torch.tensor([p[0] for p in pairs])
        is_ = torch.tensor([p[1] for p in pairs])
        hist = m.h[t][:, bs]
        exp = m.exp[t][is_, bs]
        compare("idx-vector", lambda: model(hist, idx=is_), exp,
                {"T": t, "min_idx": mmin, "batch": "every (history, idx>=min)"}, reloaded, args=(hist, is_))

    with torch.no_grad():
        # ---- all positions at once, every history length ------------------------------------
        for t in sorted(m.hists):
            hist = m.h[t]
            if t == 0 and hist.size(1) == 1:
                hist = hist.expand(0, 2)
                exp0 = m.exp[0].expand(1, 2, V)
            else:
                exp0 = m.exp[t]
            if t == T:
                marker = torch.tensor([3.5, -1.0])
                prev = {"c06": marker}
                out = compare("full", lambda: lm(hist, prev), exp0, {"T": t, "prev": "one foreign entry"},
                              args=(hist, marker))
                if list(prev) != ["c06"] or prev["c06"] is not marker:
                    viol("full", "argument-modified", {"argument": "prev", "after": repr(prev)[:200]})
            else:
                out = compare("full", lambda: lm(hist), exp0, {"T": t}, args=(hist,))
            if t == T:  # later same-shape calls on this object: chunked, views, and the next table (reuse)
                keep("full call, T=%d" % t, out)
            # ---- the same history handed in as a view: behind two foreign rows of a larger tensor
            # (non-zero storage offset) and as the transpose of a (B, T) tensor (non-contiguous) ----
            if t == T and t >= 1:
                front = (hist[:1] + 1).remainder(V).expand(2, hist.size(1))
                off_view = torch.cat([front, hist], 0)[2:]
                compare("chunked/offset-view", lambda: lm.calc_full_log_probs_chunked(off_view, dict(), 2), exp0,
                        {"T": t, "chunk_size": 2, "layout": "offset"}, args=(off_view,))
                # ---- dense columns but a row stride other than the batch size: a column slice of a wider batch and every
                # second row of a taller tensor (round 6); all positions at once and in chunks of 2 and of T+2 ----------
                foreign = (hist + 1).remainder(V)
                col_view = torch.cat([foreign[:, :1], hist, foreign], 1)[:, 1:1 + hist.size(1)]
                row_view = torch.stack([hist, foreign], 1).reshape(2 * hist.size(0), hist.size(1))[::2]
                for vname, vw in (("column-slice", col_view), ("every-second-row", row_view)):
                    for cs in (2, t + 2):
                        compare("chunked/%s-view" % vname, lambda: lm.calc_full_log_probs_chunked(vw, dict(), cs), exp0,
                                {"T": t, "chunk_size": cs, "layout": vname, "row_stride": vw.stride(0)}, args=(vw,))
                    if every_chunk or index % 2 == (vname == "column-slice"):
                        compare("full/%s-view" % vname, lambda: lm(vw), exp0, {"T": t, "layout": vname}, args=(vw,))
                if every_chunk or index % 2 == 0:
                    compare("full/offset-view", lambda: lm(off_view), exp0, {"T": t, "layout": "offset"})
                if every_chunk or index % 2 == 1:
                    nc_view = hist.t().contiguous().t()
                    compare("full/transposed-view", lambda: lm(nc_view), exp0, {"T": t, "layout": "transposed"},
                            args=(nc_view,))
                # ---- integer dtypes the documentation does not name (it says "long"): may be rejected,
                # must not give other numbers ------------------------------------------------------
                if every_chunk or index % 4 == 1:
                    dt = (torch.int32, torch.int16)[(index // 4) % 2]
                    h_dt = hist.to(dt)
                    compare("full/" + str(dt)[6:], lambda: lm(h_dt), exp0, {"T": t, "hist_dtype": str(dt)},
                            args=(h_dt,), may_reject=True)
                    i0 = torch.tensor(index % (t + 1), dtype=dt)
                    compare("idx-scalar/" + str(dt)[6:], lambda: lm(hist, idx=i0), exp0[int(i0)],
                            {"T": t, "idx": int(i0), "idx_dtype": str(dt), "idx_dim": 0}, args=(hist, i0),
                            may_reject=True)
                    iv = ((torch.arange(hist.size(1)) + index) % (t + 1)).to(dt)
                    compare("idx-vector/" + str(dt)[6:], lambda: lm(hist, idx=iv),
                            exp0[iv.long(), torch.arange(hist.size(1))],
                            {"T": t, "idx_dtype": str(dt), "idx_dim": 1}, args=(hist, iv), may_reject=True)
            # ---- chunked -------------------------------------------------------------------------
            if t == T or every_chunk:
                chunks = range(1, t + 3)
            else:  # light: the forward call is chunk size 1; smallest real chunk and one beyond the end
                chunks = sorted({2, t + 2})
            for c in chunks:
                compare("chunked", lambda: lm.calc_full_log_probs_chunked(hist, dict(), c), exp0,
                        {"T": t, "chunk_size": c}, args=(hist,))
            # ---- scalar idx ---------------------------------------------------------------------
            if t == T:
                for i in range(t + 1):
                    out = compare("idx-scalar", lambda: lm(hist, idx=i), exp0[i], {"T": t, "idx": i},
                                  args=(hist,))
                    if i == 0:
                        keep("scalar idx=0 call, T=%d" % t, out)
                    ineg = i - t - 1
                    arg = torch.tensor(ineg) if i % 2 else torch.tensor([ineg])
                    compare("idx-scalar", lambda: lm(hist, None, arg), exp0[i],
                            {"T": t, "idx": ineg, "as": "tensor"}, args=(hist, arg))
            else:
                compare("idx-scalar", lambda: lm(hist, idx=-1), exp0[t], {"T": t, "idx": -1}, args=(hist,))
                if t and every_chunk:
                    compare("idx-scalar", lambda: lm(hist, idx=torch.tensor(0)), exp0[0], {"T": t, "idx": 0})
        # ---- per-element idx --------------------------------------------------------------------
        for mmin in range(T + 1):
            vec_batch(lm, T, mmin)
        if T >= 2:
            vec_batch(lm, T - 1, 0)
        hs = m.hists[T]
        nb = len(hs)
        if b3:
            sizes = (1, 2, 3)
        elif every_chunk or index % 2 == 0:
            sizes = (1, 2)
        else:  # light: all B=2 vectors on every other table
            sizes = (1,)
        for B in sizes:
            sel = [(index * 7 + j * (nb // 3 + 1) + j) % nb for j in range(B)]
            hist = m.h[T][:, sel].contiguous()
            for vec in itertools.product(range(T + 1), repeat=B):
                iv = torch.tensor(vec)
                exp = m.exp[T][iv, torch.tensor(sel)]
                compare("idx-vector", lambda: lm(hist, idx=iv), exp,
                        {"T": T, "histories": [hs[s] for s in sel], "idx": list(vec)}, args=(hist, iv))
        # ---- every history evaluated ALONE (batch size 1): whole-batch decisions inside the library
        # (early exits, minimum index, padding amount) must not change a single query's answer ---------
        if alone:
            for t in sorted(m.hists):
                for b in range(len(m.hists[t])):
                    h1 = m.h[t][:, b:b + 1]
                    compare("alone/idx-scalar", lambda: lm(h1, idx=-1), m.exp[t][t, b:b + 1],
                            {"T": t, "history": m.hists[t][b], "idx": -1, "batch_size": 1})
            nT = len(m.hists[T])
            for b in range(nT):
                if nT <= 8 or b % 4 == index % 4:
                    h1 = m.h[T][:, b:b + 1].contiguous()
                    compare("alone/full", lambda: lm(h1), m.exp[T][:, b:b + 1],
                            {"T": T, "history": m.hists[T][b], "batch_size": 1})
                    if b % 2 == index % 2:
                        compare("alone/chunked", lambda: lm.calc_full_log_probs_chunked(h1, dict(), 2),
                                m.exp[T][:, b:b + 1], {"T": T, "history": m.hists[T][b], "chunk_size": 2,
                                                       "batch_size": 1})
        check_kept("after all calls on the constructed model")
        # ---- save -> fresh instance -> load -----------------------------------------------------
        try:
            sd = lm.state_dict()
            if save_load:
                buf = io.BytesIO()
                torch.save(sd, buf)
                buf.seek(0)
                sd = torch.load(buf)
            lm2 = LookupLanguageModel(V, sos)
            lm2.load_state_dict(sd)
        except Exception as e:
            ctx.case(1)
            viol("reload", "raises", {"error": repr(e)[-400:]}, type=type(e).__name__)
            return lm
        for t in sorted(m.hists):
            if every_chunk or t in (0, T):
                hist = m.h[t]
                compare("full", lambda: lm2(hist), m.exp[t], {"T": t}, True)
        hist = m.h[T]
        for c in (2, T + 1) if every_chunk else (2 + index % T,):
            compare("chunked", lambda: lm2.calc_full_log_probs_chunked(hist, dict(), c), m.exp[T],
                    {"T": T, "chunk_size": c}, True)
        for i in range(T + 1) if every_chunk else (index % (T + 1),):
            compare("idx-scalar", lambda: lm2(hist, idx=i), m.exp[T][i], {"T": T, "idx": i}, True)
        vec_batch(lm2, T, 0, True)
        if every_chunk:
            vec_batch(lm2, T, min(1, T), True)
        # ---- object history: load this table into the object that was built from (and called with) the
        # previous table of the same (V, sos) - other size, possibly other order / offset width ------------
        if carrier is not None:
            old = carrier["lm"]
            global_case = dict(base_case, prev_dicts=carrier["dicts"])
            save_case, base_case_ref[0] = base_case_ref[0], global_case
            try:
                try:
                    old.load_state_dict(sd)
                except Exception as e:
                    ctx.case(1)
                    viol("reuse", "raises", {"error": repr(e)[-400:], "previous_order": carrier["order"]},
                         type=type(e).__name__)
                else:
                    hist = m.h[T]
                    compare("full", lambda: old(hist), m.exp[T], {"T": T, "previous_order": carrier["order"]},
                            "reuse")
                    vec_batch(old, T, 0, "reuse")
                    ko, kc = carrier["kept"]
                    if ko is not None and not bool(((ko == kc) | ((ko != ko) & (kc != kc))).all()):
                        viol("kept-result", "result-changed-by-later-call",
                             {"result_of": "call before load_state_dict of another table", "before": kc, "after": ko})
            finally:
                base_case_ref[0] = save_case
        check_kept("after save / load / reuse")
    k0 = kept[0] if kept else (None, None, None)
    return {"lm": lm, "dicts": dicts_to_json(dicts), "order": N, "kept": (k0[1], k0[2])}


# ---- ARPA ---------------------------------------------------------------------------------
_SCRATCH = None


def scratch():
    global _SCRATCH
    if _SCRATCH is None:
        _SCRATCH = "/dev/shm/verif-%d/c06" % os.getpid()
        os.makedirs(_SCRATCH, exist_ok=True)
    return _SCRATCH


def drop_scratch():
    global _SCRATCH
    if _SCRATCH is not None:
        shutil.rmtree(os.path.dirname(_SCRATCH), ignore_errors=True)
        _SCRATCH = None


def _same_parse(got, exp, to_base_e):
    """None if equal else a description."""
    if not isinstance(got, list) or len(got) != len(exp):
        return "number of orders: %r vs %d" % (len(got) if isinstance(got, list) else type(got), len(exp))
    for n, (g, e) in enumerate(zip(got, exp), 1):
        if set(g.keys()) != set(e.keys()):
            return "%d-gram keys: missing %r, unexpected %r" % (
                n, sorted(set(e) - set(g), key=repr)[:3], sorted(set(g) - set(e), key=repr)[:3])
        for k, ev in e.items():
            gv = g[k]
            if isinstance(ev, tuple):
                if not isinstance(gv, tuple) or len(gv) != 2:
                    return "%d-gram %r: value %r is not a (logp, logb) pair" % (n, k, gv)
                pairs = list(zip(gv, ev))
            else:
                if isinstance(gv, (tuple, list)):
                    return "%d-gram %r: value %r is not a number" % (n, k, gv)
                pairs = [(gv, ev)]
            for a, b in pairs:
                if to_base_e:
                    if not abs(a - b) <= 1e-12 * (1 + abs(b)):
                        return "%d-gram %r: %r vs %r" % (n, k, gv, ev)
                elif a != b:
                    return "%d-gram %r: %r vs %r" % (n, k, gv, ev)
    return None


_ARPA_PREV = []  # [result object, expected, to_base_e, case] of the previous successful parse


def check_arpa(ctx, V, sos, dicts, index, base_case):
    A = alphabet(V, sos)
    namings = (
        lambda t: "<s>" if (t == sos and not 0 <= sos < V) else str(t),  # numeric words
        lambda t: "<s>" if t == sos else ("w%d" % t if t > 25 else "abcdefghijklmnopqrstuvwxyz"[t]),
    )
    path = os.path.join(scratch(), "lm.arpa")
    for variant in (0, 1):
        name = namings[(variant + index) % 2]
        text = O.to_arpa(dicts, name, variant)
        token2id = {name(t): t for t in A}
        map_copy = dict(token2id)
        with_path = variant == index % 2  # the path entry point reads one of the two layouts per table
        if with_path:
            with open(path, "w") as f:
                f.write(text)
        first = True
        for source, to_base_e, use_map in itertools.product(("file", "path"), (False, True, None), (False, True)):
            if to_base_e is None and (source == "path" or use_map):
                continue  # the default (base 10, with a deprecation warning) once per text
            if source == "path" and not with_path:
                continue
            ctx.case(1)
            sig = {"api": "parse_arpa_lm", "source": source, "to_base_e": to_base_e, "token2id": use_map}
            case = dict(base_case, arpa_variant=variant)
            try:
                src = io.StringIO(text) if source == "file" else path
                if to_base_e is None:
                    got = parse_arpa_lm(src, token2id if use_map else None)
                else:
                    got = parse_arpa_lm(src, token2id if use_map else None, to_base_e)
            except Exception as e:
                ctx.violation(dict(sig, symptom="raises", type=type(e).__name__), case,
                              {"error": repr(e)[-300:], "text": text[:600]})
                continue
            exp = O.expected_parse(dicts, (lambda t: t) if use_map else name, bool(to_base_e))
            d = _same_parse(got, exp, bool(to_base_e))
            if d is not None:
                ctx.violation(dict(sig, symptom="wrong-entries"), case, {"difference": d, "text": text[:600]})
                continue
            if token2id != map_copy:
                ctx.violation(dict(sig, symptom="argument-modified"), case, {"token2id": repr(token2id)[:300]})
                token2id = dict(map_copy)
            # two calls in a row on different texts are independent: what the previous call returned
            # (another layout / another table) must still be what it was
            if first and _ARPA_PREV:
                pg, pe, pb, pc = _ARPA_PREV
                d = _same_parse(pg, pe, pb)
                if d is not None:
                    ctx.violation({"api": "parse_arpa_lm", "symptom": "earlier-result-changed-by-later-call"},
                                  dict(pc, then=case), {"difference": d})
            first = False
            _ARPA_PREV[:] = [got, exp, bool(to_base_e), case]


# =======================================================================================
def _tmax(tier):
    return 3 if tier == "quick" else 4


def _eval_table(ctx, V, sos, dicts, hists, index, b3, case, arpa=True, every_chunk=True, carriers=None,
                alone=None):
    """carriers: dict (V, sos) -> the previous table's model object, into which this table is loaded."""
    key = (V, sos)
    if alone is None:  # every table of order >= 4, every 16th table otherwise (every 4th when not light)
        alone = len(dicts) >= 4 or index % (4 if every_chunk else 16) == 2
    car = check_model(ctx, V, sos, dicts, hists, index, b3, case, save_load=index % 2 == 0,
                      every_chunk=every_chunk, carrier=None if carriers is None else carriers.get(key),
                      alone=alone)
    if carriers is not None:
        if car is None:
            carriers.pop(key, None)
        else:
            carriers[key] = car
    if arpa:
        check_arpa(ctx, V, sos, dicts, index, case)


# ---- one object, many tables -----------------------------------------------------------------
HISTORY_TABLES = [  # (name, spec for make_big); V=17, sos=-1 throughout
    ("uni", dict(V=17, sos=-1, N=1, counts=[])),
    ("small2", dict(V=17, sos=-1, N=2, counts=[20])),          # uint8 offsets
    ("large2", dict(V=17, sos=-1, N=2, counts=[300])),         # int16 offsets
    ("small3", dict(V=17, sos=-1, N=3, counts=[6, 9])),        # uint8
    ("large3", dict(V=17, sos=-1, N=3, counts=[30, 270])),     # int16
]


def check_history(ctx, seed, only=None):
    """ONE LookupLanguageModel(17, -1) object receives load_state_dict of table X then table Y for every
    ordered pair (X, Y) (smaller/bigger, order 1/2/3, uint8<->int16 offsets both ways) and is called with
    changing lengths / batch sizes after each load: it must behave as a fresh instance holding that table."""
    V, sos = 17, -1
    hists = all_hists(alphabet(V, sos), 2)
    tabs = {}
    with torch.no_grad():
        for name, spec in HISTORY_TABLES:
            dicts = make_big(spec, seed)
            m = _Model(V, sos, dicts, hists)
            sd = LookupLanguageModel(V, sos, [dict(d) for d in dicts]).state_dict()
            tabs[name] = (m, sd)
        obj = LookupLanguageModel(V, sos)
        step = 0
        names = [n for n, _ in HISTORY_TABLES]
        kept = None
        for a in names:
            for b in names:
                if a == b:
                    continue
                for x in (a, b):
                    step += 1
                    m, sd = tabs[x]
                    case = {"kind": "history", "seed": seed, "pair": [a, b], "loaded": x, "step": step}
                    if only is not None and only != [a, b]:
                        continue
                    sig = {"api": "LookupLanguageModel", "mode": "object-history", "order": m.N,
                           "sos_in_vocab": False, "offsets_dtype": str(sd["offsets"].dtype).replace("torch.", "")}
                    try:
                        obj.load_state_dict(sd)
                        outs = []
                        for t in (2, 0, 1):  # lengths and batch sizes change between calls
                            outs.append((t, obj(m.h[t]), m.exp[t]))
                        outs.append(("chunked", obj.calc_full_log_probs_chunked(m.h[2], dict(), 2), m.exp[2]))
                        iv = torch.arange(m.h[2].size(1)) % 3
                        outs.append(("idx-vector", obj(m.h[2], idx=iv)[0], m.exp[2][iv, torch.arange(iv.numel())]))
                    except Exception as e:
                        ctx.case(1)
                        ctx.violation(dict(sig, symptom="raises", type=type(e).__name__), case,
                                      {"error": repr(e)[-400:]})
                        obj = LookupLanguageModel(V, sos)
                        continue
                    for what, out, exp in outs:
                        ctx.case(exp.numel() // V)
                        bad = _agree(out, exp, m.tol)
                        if bad is not None:
                            ctx.violation(dict(sig, symptom="differs-from-fresh-instance"), case,
                                          {"call": what, "position": bad,
                                           "expected": None if bad == "shape" else exp[tuple(bad)].item(),
                                           "observed": None if bad == "shape" else out[tuple(bad)].item()})
                            break
                    if kept is not None and not bool(((kept[0] == kept[1]) | ((kept[0] != kept[0]) & (kept[1] != kept[1]))).all()):
                        ctx.violation(dict(sig, symptom="result-changed-by-later-call"), case,
                                      {"result_of": "call before this load_state_dict"})
                    kept = (outs[0][1], outs[0][1].clone())
    ctx.count("object_history_loads", step)


def run_shard(spec, tier, seed):
    ctx = Ctx()
    carriers = {}
    try:
        if spec["kind"] == "history":
            check_history(ctx, seed)
        elif spec["kind"] == "fam":
            fams = families(tier)
            for fi in spec["fams"]:
                f = fams[fi]
                V, sos, N = f["V"], f["sos"], f["N"]
                hists = all_hists(alphabet(V, sos), _tmax(tier))
                for index, struct in enumerate(gen_structs(f)):
                    if index % spec["S"] != spec["r"]:
                        continue
                    dicts = make_dicts(f, struct, index, seed)
                    light = tier == "quick" or f.get("light", False)
                    b3 = index % (8 if light else 4) == 0 or f["fam"] == "uni"
                    full = not light or f["fam"] in ("uni", "tristate-all")
                    case = {"kind": "table", "V": V, "sos": sos, "family": f["fam"], "index": index,
                            "T": _tmax(tier), "b3": b3, "full": full, "hist": "all",
                            "dicts": dicts_to_json(dicts)}
                    if index == spec["r"] and N > 1:
                        ctx.sample({"V": V, "sos": sos, "order": N, "family": f["fam"],
                                    "prob_dicts": repr(dicts), "history": [sos, 0],
                                    "katz_next_token_logps": O.next_logps(dicts, V, sos, (sos, 0))})
                    _eval_table(ctx, V, sos, dicts, hists, index, b3, case, every_chunk=full, carriers=carriers)
        else:
            bigs = big_specs(tier)
            for j in spec["ids"]:
                b = bigs[j]
                V, sos = b["V"], b["sos"]
                dicts = make_big(b, seed)
                if b.get("hist") == "structured":
                    hists = structured_hists(dicts, V, sos, b["T"])
                else:
                    hists = all_hists(alphabet(V, sos), b["T"])
                case = {"kind": "big", "V": V, "sos": sos, "family": "width-crossing", "index": j,
                        "T": b["T"], "b3": True, "hist": b.get("hist", "all"), "dicts": dicts_to_json(dicts)}
                ctx.count("big_tables")
                _eval_table(ctx, V, sos, dicts, hists, j, True, case, carriers=carriers)
                if j == 0:
                    ctx.sample({"V": V, "sos": sos, "order": b["N"], "family": "width-crossing",
                                "nodes_per_level": [len(d) for d in dicts]})
    finally:
        drop_scratch()
    return ctx


def finalize(total, tier, seed):
    c = total.counters
    if total.skipped == 0 and not c.get("offsets_int16"):
        total.violation({"api": "harness", "symptom": "int16 offsets never reached"}, {"kind": "none"}, dict(c))


def replay(case):
    ctx = Ctx()
    if case.get("kind") == "history":
        check_history(ctx, case["seed"], only=list(case["pair"]))
        return ctx
    if case.get("kind") not in ("table", "big"):
        return ctx
    dicts = dicts_from_json(case["dicts"])
    V, sos = case["V"], case["sos"]
    carriers = None
    if case.get("prev_dicts"):  # rebuild the object that held the previous table and was called with it
        pd = dicts_from_json(case["prev_dicts"])
        with torch.no_grad():
            old = LookupLanguageModel(V, sos, [dict(d) for d in pd])
            k = old(torch.zeros((1, 2), dtype=torch.long))
        carriers = {(V, sos): {"lm": old, "dicts": case["prev_dicts"], "order": len(pd), "kept": (k, k.clone())}}
    if case.get("hist") == "structured":
        hists = structured_hists(dicts, V, sos, case["T"])
    else:
        hists = all_hists(alphabet(V, sos), case["T"])
    try:
        _eval_table(ctx, V, sos, dicts, hists, case["index"], case["b3"], case,
                    every_chunk=case.get("full", True), carriers=carriers)
    finally:
        drop_scratch()
    return ctx
