"""C04 - beam search: distinct, correctly scored, best-first paths; completeness; batch independence.

Every search of the parameter grid is one trajectory of prune/extend steps of the *real* BeamSearch
driven by a history-dependent table language model whose state is threaded through the search
(checks/_c04_lm.py); every returned path is re-scored by the chain rule of the plain-Python model
(mc/oracles/decoding_beam.py).  beam_search_advance is additionally driven step by step by a loop in
this file and compared with the top-k of the joint table.
"""

import math

import torch

import pydrobert.torch.functional as F
import pydrobert.torch.modules as M

from mc.runner import Ctx
from mc.oracles import decoding_beam as O
from checks._c04_lm import (TableLM, ScriptTableLM, ObservedBeamSearch, LMContractBreach,
                             SearchDoesNotTerminate)

STEP_CAP = 300

PROP = "C04"
LEVEL = "model_checking"
RULE = (
    "grid: vocabulary V in {2,3} x table language models (4 quick / 16 thorough seed-valued tables + 6 "
    "structured tables that gate the eos-like token on the last token / on depth-by-first-token / nearly "
    "uniform / true zero probabilities) x eos in {unset, each token} x finish_all_paths (both, when eos is "
    "set) x every width 1..V^T+3 x max_iters 0..T (T=3 quick, 4 thorough) x batch specs {unset with and "
    "without initial state, 1 with each of 3 per-element bias rows, 3 (and 2 in thorough) with "
    "permuted/repeated rows}; plus searches without step limit (eos set, deep rows force eos) and a "
    "step-by-step drive of functional.beam_search_advance (fixed and varying widths, with/without lengths, "
    "ragged lengths produced by emulated eos); plus object-reuse histories: per table, every ordered pair "
    "(a, b) of a 16-entry configuration menu (width, eos, finish_all_paths, pad_value, max_iters, batch size "
    "unset/1/2/3, initial state) as a history of three calls a, b, a - on ONE module object when b differs "
    "from a only in call arguments, otherwise with the middle call on a second newly constructed object that "
    "shares the language-model object - where the 2nd and 3rd results must satisfy the per-result property and "
    "equal, column by column, what a fresh object returns (alternately the unsubclassed module and the "
    "observing subclass); reassigning __constants__ (width, eos, finish_all_paths, pad_value) on a live object "
    "is executed and only counted; plus object lifecycle: per table, 10 constructor configurations (eos in "
    "{0, V-1, unset, -V, -1} x {finish_all_paths False with default pad_value, True with pad_value 0}) on a "
    "table LM with trainable parameters x {deepcopy, pickle, torch.save/load, used+deepcopy, eval+deepcopy, "
    "state_dict into fresh / into an already used module / into a module with other options and weights, "
    "double-float, scripted+jit.save/load, scripted+deepcopy} x 3 batches - each must equal the fresh object; plus variants of one search: per table, for "
    "eos in {unset, each token} x finish_all_paths x width in {1,3,V^T+3} x batch {3, unset, 1} the plain "
    "call is compared (slots and whole columns) with: eos as negative index, numpy integers, 0-dim tensor "
    "max_iters, integral floats (these three may be refused), constructor/call keywords, initial_state as "
    "keyword, width assigned as attribute, empty/None/omitted initial state, a model whose logits require "
    "grad, no_grad, inference_mode, default dtype float64 (model built before / inside), and "
    "torch.jit.script(BeamSearch(torch.jit.script(table LM))) incl. negative eos. One case = one search (one trajectory) resp. one advance "
    "step; distinct by construction (cartesian product of duplicate-free menus). Non-trivial = the "
    "reference search pruned at least one candidate or some returned path ended early by eos."
)
ASSUMPTIONS = [
    "small scope: V<=3, max_iters<=3/4 (plus unbounded runs that end by eos), widths up to V^T+3, batch<=3",
    "language models are tables over the whole history (state = integer code of the consumed tokens + batch "
    "offset), finite logits except in the 'hard-zero' table; seed only changes filler logits",
    "scores compared with abs 3e-5 + rel 1e-5 tolerance (float32 search vs float64 chain rule)",
    "runs in which the reference sees two candidates closer than 1e-4 at an ordering/pruning decision are "
    "downgraded to the tie-independent invariants (counted in 'downgraded_near_tie')",
    "besides the stated property the returned beam is compared with the documented search (keep the width "
    "most probable paths; stop when the best/all paths ended) under its own signature",
    "with zero-probability tokens, completeness is demanded for positive-probability sequences only",
    "the per-step observations use the documented subclass hook update_log_probs_for_step (identity); "
    "unsubclassed BeamSearch is run for the batch_size=None cases and must agree",
    "object-reuse histories have length 3 (a, b, a) over a fixed menu; a new constructor configuration is "
    "obtained from a new object (reassigned __constants__ are counted in constants_reassigned_honoured/ignored, "
    "never judged); padding contents are compared only between reused/copied and fresh objects (usable slots), "
    "not against a model",
    "lifecycle variants come from mc/guards.lifecycle_variants plus torch.jit.save/load and deepcopy of the "
    "scripted module; RandomWalk is not driven by this check",
    "variants: spellings the documentation does not promise (numpy ints, 0-dim tensors, integral floats) may "
    "raise, but must mean the same search when accepted; default-dtype-float64 runs are compared at 1e-5 and "
    "skipped on near ties; graph leaks / memory are not checked",
    "TorchScript: explored for width 3 and V^T+3 on a scriptable re-statement of the table LM "
    "(checks/_c04_lm.py::ScriptTableLM, no call counters); tracing is not explored (the repository's tests "
    "mark it unsupported); CUDA not explored; pad_value rotates over the default and the valid token ids 1, V-1, 0 across the search grid",
]
BUDGET_S = {"quick": 240, "thorough": 2400}

NEG_INF = float("-inf")
BS = "BeamSearch"
ADV = "beam_search_advance"


def _T(tier):
    return 3 if tier == "quick" else 4


def _tables(tier):
    n = 4 if tier == "quick" else 16
    return [f"seeded-{i}" for i in range(n)] + list(O.STRUCTURED)


def _comps(tier):
    if tier == "quick":
        return [(0, 1, 2), (2, 0, 1), (1, 1, 0)]
    return [(0, 1, 2), (0, 2, 1), (1, 0, 2), (1, 2, 0), (2, 0, 1), (2, 1, 0), (1, 1, 0), (2, 2, 2), (2, 0)]


def _close(a, b):
    if a == b:
        return True
    if math.isinf(a) or math.isinf(b) or a != a or b != b:
        return False
    return abs(a - b) <= 3e-5 + 1e-5 * abs(b)


def shards(tier, seed):
    T = _T(tier)
    out = []
    for V in (3, 2):
        parts = 1 if V == 2 else (2 if tier == "quick" else 6)
        for table in _tables(tier):
            for eos in [None] + list(range(V)):
                for part in range(parts):
                    out.append({"kind": "search", "V": V, "T": T, "table": table, "eos": eos,
                                "part": part, "parts": parts})
    for V in (3, 2):
        for table in _tables(tier):
            out.append({"kind": "unbounded", "V": V, "T": T, "table": table})
            out.append({"kind": "advance", "V": V, "T": T, "table": table})
            out.append({"kind": "reuse", "V": V, "T": T, "table": table})
            out.append({"kind": "variants", "V": V, "T": T, "table": table})
            out.append({"kind": "lifecycle", "V": V, "T": T, "table": table})
    return out


# ---------------------------------------------------------------------------------------------
# running one search and normalising what it returns
# ---------------------------------------------------------------------------------------------
def _batch_tag(batch_size):
    return "unset" if batch_size is None else str(batch_size)


def _run_search(ctx, case, lm, width, eos, fap, max_iters, batch_size, offs, observed, with_state=True,
                bs=None, sig_extra=None, caller=None):
    """returns (per-element slot lists, observed steps or None, raw) or None after reporting a violation.
    slot = (tokens tuple or None if unusable, score); raw = per element, per slot the whole returned column
    of y (None for unusable slots).  bs: an existing module object to call (object-reuse histories), whose
    attributes the caller has already set to (width, eos, fap)."""
    V = lm.vocab_size
    N = 1 if batch_size is None else batch_size
    lm.calls_left = STEP_CAP
    sig_extra = sig_extra or {}
    try:
        if caller is not None:  # variant spellings: the callable builds and calls the module itself
            y, lens, lp = caller()
        elif bs is None:
            cls = ObservedBeamSearch if observed else M.BeamSearch
            kw = {} if case.get("pad_value") is None else {"pad_value": case["pad_value"]}
            bs = cls(lm, width, eos=eos, finish_all_paths=fap, **kw) if eos is not None else cls(lm, width, **kw)
        elif observed:
            bs.steps = []
        init = {"off": torch.tensor(list(offs), dtype=torch.long)} if with_state else None
        if caller is not None:
            pass
        elif init is None:
            y, lens, lp = bs(batch_size=batch_size, max_iters=max_iters)
        else:
            y, lens, lp = bs(init, batch_size, max_iters)
    except Exception as e:  # every input of the grid is legal
        symptom = ("model-called-beyond-history" if isinstance(e, LMContractBreach) else
                   "does-not-terminate" if isinstance(e, SearchDoesNotTerminate) else "raises")
        ctx.violation({"api": BS, "symptom": symptom, "type": type(e).__name__, "eos_set": eos is not None,
                       "fap": fap, "max_iters_unset": max_iters is None,
                       "zero_probability_tokens": "hard-zero" in lm.model.name, **sig_extra},
                      case, {"error": repr(e)[-400:], "offs": list(offs), "batch_size": batch_size,
                             "observed_subclass": observed})
        return None
    want_tail = (width,) if batch_size is None else (N, width)
    if (y.dim() != len(want_tail) + 1 or tuple(y.shape[1:]) != want_tail or tuple(lens.shape) != want_tail
            or tuple(lp.shape) != want_tail):
        ctx.violation({"api": BS, "symptom": "wrong-shape", "batch": _batch_tag(batch_size), **sig_extra}, case,
                      {"y": list(y.shape), "y_lens": list(lens.shape), "y_log_probs": list(lp.shape)})
        return None
    if batch_size is None:
        y, lens, lp = y.unsqueeze(1), lens.unsqueeze(0), lp.unsqueeze(0)
    S = y.size(0)
    yl = y.permute(1, 2, 0).tolist()
    ll = lens.tolist()
    pl = lp.tolist()
    elems = []
    raw = []
    for n in range(N):
        slots = []
        raw.append([yl[n][k] if pl[n][k] != NEG_INF else None for k in range(width)])
        for k in range(width):
            sc = pl[n][k]
            if sc == NEG_INF:
                slots.append((None, sc))
                continue
            if sc != sc or sc == float("inf"):
                ctx.violation({"api": BS, "symptom": "nan-or-posinf-score"}, case,
                              {"offs": list(offs), "element": n, "slot": k, "scores": pl[n]})
                return None
            if not 0 <= ll[n][k] <= S:
                ctx.violation({"api": BS, "symptom": "bad-length"}, case,
                              {"offs": list(offs), "element": n, "slot": k, "len": ll[n][k], "S": S})
                return None
            slots.append((tuple(yl[n][k][: ll[n][k]]), sc))
        elems.append(slots)
    return elems, (bs.steps if observed and caller is None else None), raw


# ---------------------------------------------------------------------------------------------
# the stated property, per batch element
# ---------------------------------------------------------------------------------------------
def _check_elem(ctx, case, model, off, eos, fap, width, max_iters, slots, ref, complete, info):
    V = model.V
    scores = [s for _, s in slots]
    det = dict(info, off=off, returned=[[list(t) if t is not None else None, s] for t, s in slots])
    ok = True
    # order: best first, unusable slots (minus infinity) last
    for a, b in zip(scores, scores[1:]):
        if a == NEG_INF and b != NEG_INF:
            ctx.violation({"api": BS, "symptom": "finite-after-minus-inf"}, case, det)
            ok = False
            break
        if b > a + 1e-6:
            ctx.violation({"api": BS, "symptom": "not-best-first"}, case, det)
            ok = False
            break
    finite = [(t, s) for t, s in slots if t is not None]
    seen = set()
    for t, s in finite:
        if any(not 0 <= v < V for v in t):
            ctx.violation({"api": BS, "symptom": "token-out-of-vocabulary"}, case, det)
            return False
        if eos is not None and eos in t[:-1]:
            ctx.violation({"api": BS, "symptom": "continues-past-eos", "fap": fap}, case, dict(det, path=list(t)))
            ok = False
            continue
        if max_iters is not None and len(t) > max_iters:
            ctx.violation({"api": BS, "symptom": "longer-than-max-iters"}, case, dict(det, path=list(t)))
            ok = False
            continue
        if t in seen:
            ctx.violation({"api": BS, "symptom": "duplicate-path"}, case, dict(det, path=list(t)))
            ok = False
        seen.add(t)
        want = model.chain(t, off)
        if not _close(s, want):
            ctx.violation({"api": BS, "symptom": "score-not-chain-rule", "where": "returned",
                           "batched": info["N"] > 1},
                          case, dict(det, path=list(t), expected=want, observed=s))
            ok = False
    if not finite:
        ctx.violation({"api": BS, "symptom": "no-usable-path"}, case, det)
        return False
    # completeness at exhaustive width when all paths are run to completion
    if complete is not None and width >= len(complete) and (eos is None or fap):
        ctx.count("completeness_checked")
        if seen != set(complete):
            ctx.violation({"api": BS, "symptom": "incomplete-at-exhaustive-width", "eos_set": eos is not None},
                          case, dict(det, missing=[list(t) for t in sorted(set(complete) - seen)],
                                     extra=[list(t) for t in sorted(seen - set(complete))]))
            ok = False
    # the documented search (tie-free runs only)
    if ref["near_tie"]:
        ctx.count("downgraded_near_tie")
    elif ok:
        exp = ref["beam"]
        same = len(exp) == len(finite) and all(
            e[0] == f[0] and _close(f[1], e[1]) for e, f in zip(exp, finite))
        if not same:
            ctx.violation({"api": BS, "symptom": "differs-from-documented-search", "fap": fap,
                           "eos_set": eos is not None}, case,
                          dict(det, expected=[[list(t), s, f] for t, s, f in exp]))
            ok = False
    if ok:
        ctx.outcome((len(finite), tuple(len(t) for t, _ in finite),
                     tuple(bool(t) and t[-1] == eos for t, _ in finite)))
    return ok


def _check_steps(ctx, case, model, offs, eos, fap, steps, info):
    """what the search showed its hook before every prune/extend step: the scores of the live paths and the
    language model's answer for each of them must belong to exactly that path (state follows the paths)"""
    N = len(offs)
    frozen = [False] * N
    n_steps = [0] * N
    for t, (lpp, lpt, y, lens, emask) in enumerate(steps):
        for n in range(N):
            if t > 0 and eos is not None:
                if (all(emask[n]) if fap else emask[n][0]):
                    frozen[n] = True
            if frozen[n]:
                continue  # result already decided; the documentation freezes it
            n_steps[n] += 1
            ctx.transitions += 1
            beam = []
            for k in range(len(lpp[n])):
                if lpp[n][k] == NEG_INF or lpp[n][k] != lpp[n][k]:
                    continue
                L = lens[n][k]
                if not 0 <= L <= len(y[n][k]):
                    ctx.violation({"api": BS, "symptom": "bad-length", "where": "step"}, case,
                                  dict(info, offs=list(offs), step=t, element=n, slot=k, len=L))
                    return None
                toks = tuple(y[n][k][:L])
                beam.append(toks)
                if any(not 0 <= v < model.V for v in toks):
                    continue
                want = model.chain(toks, offs[n])
                if not _close(lpp[n][k], want):
                    ctx.violation({"api": BS, "symptom": "score-not-chain-rule", "where": "step",
                                   "batched": N > 1}, case,
                                  dict(info, offs=list(offs), step=t, element=n, slot=k, path=list(toks),
                                       expected=want, observed=lpp[n][k]))
                    return None
                if eos is not None and toks and toks[-1] == eos:
                    continue  # ended: the model's answer is not used
                wantd = model.log_probs(toks, offs[n])
                if not all(_close(a, b) for a, b in zip(lpt[n][k], wantd)):
                    ctx.violation({"api": BS, "symptom": "state-not-following-paths", "batched": N > 1,
                                   "first_step": t == 0}, case,
                                  dict(info, offs=list(offs), step=t, element=n, slot=k, path=list(toks),
                                       expected=wantd, observed=lpt[n][k]))
                    return None
            ctx.state((model.name, model.V, offs[n], eos, t, tuple(beam)))
    return n_steps


def _same_slots(a, b, tol=1e-6):
    if len(a) != len(b):
        return False
    for (ta, sa), (tb, sb) in zip(a, b):
        if (ta is None) != (tb is None):
            return False
        if ta is not None and (ta != tb or abs(sa - sb) > tol * (1.0 + abs(sb))):
            return False
    return True


def _check_config(ctx, model, lm, eos, fap, width, max_iters, tier, seed, deep=False):
    """all batch specs of one (model, eos, finish_all_paths, width, max_iters)"""
    case = {"kind": "search", "V": model.V, "T": model.depth, "table": model.name.split("/")[0], "seed": seed,
            "eos": eos, "fap": fap, "width": width, "max_iters": max_iters, "tier": tier, "deep": deep}
    # the padding value rotates over the default and the VALID TOKEN IDS 1, V-1, 0 (a function of the configuration, so a
    # replay rebuilds it): padding must never be recognised by its value - no clause depends on it
    case["pad_value"] = (None, 1, model.V - 1, 0)[(width + (max_iters or 0) + (0 if eos is None else eos + 1) + int(fap)) % 4]
    refs, completes = {}, {}
    for o in range(3):
        try:
            refs[o] = O.reference_beam(model, o, width, eos, fap, max_iters)
        except O.OracleError as e:
            ctx.capped.append("reference search hit its step cap")
            ctx.notes.append(f"oracle: {e} for {case}")
            return
        completes[o] = None if max_iters is None else O.complete_sequences(model, o, eos, max_iters)

    def nontrivial(offs, elems):
        return any(refs[o]["pruned"] for o in offs) or any(
            t is not None and eos is not None and t and t[-1] == eos for sl in elems for t, _ in sl)

    def full(offs, batch_size, observed, with_state=True):
        info = {"batch_size": batch_size, "N": len(offs), "with_initial_state": with_state}
        got = _run_search(ctx, case, lm, width, eos, fap, max_iters, batch_size, offs, observed, with_state)
        if got is None:
            ctx.case(1, 0)
            return None, None
        elems, steps, _ = got
        ctx.case(1, 1 if nontrivial(offs, elems) else 0)
        ok = True
        for n, o in enumerate(offs):
            ok = _check_elem(ctx, case, model, o, eos, fap, width, max_iters, elems[n], refs[o], completes[o],
                             dict(info, element=n, offs=list(offs))) and ok
        n_steps = None
        if steps is not None:
            n_steps = _check_steps(ctx, case, model, offs, eos, fap, steps, info)
            ok = ok and n_steps is not None
        if ok:
            ctx.traces += 1
        return elems, n_steps

    alone = {}
    for o in range(3):
        elems, _ = full((o,), 1, True)
        alone[o] = None if elems is None else elems[0]
    # batch size unset: unsubclassed module; with the element's initial state, and (offset 0) with none
    for o in range(3):
        for with_state in ((True, False) if o == 0 else (True,)):
            elems, _ = full((o,), None, False, with_state)
            if elems is not None and alone[o] is not None and not refs[o]["near_tie"]:
                if not _same_slots(elems[0], alone[o]):
                    ctx.violation({"api": BS, "symptom": "batch-dependent", "against": "batch_size-unset"}, case,
                                  {"off": o, "with_initial_state": with_state,
                                   "batch_size_1": alone[o], "batch_size_unset": elems[0]})
    for offs in _comps(tier):
        elems, n_steps = full(offs, len(offs), True)
        if elems is None:
            continue
        if n_steps is not None:
            ctx.outcome(("steps", tuple(n_steps)))
            if len(set(n_steps)) > 1:
                ctx.count("batches_whose_elements_finish_at_different_steps")
        for n, o in enumerate(offs):
            if alone[o] is None or refs[o]["near_tie"]:
                continue
            ctx.count("batch_independence_checked")
            if not _same_slots(elems[n], alone[o]):
                ctx.violation({"api": BS, "symptom": "batch-dependent", "against": "alone", "fap": fap,
                               "eos_set": eos is not None}, case,
                              {"offs": list(offs), "element": n, "alone": alone[o], "in_batch": elems[n]})
                break


# ---------------------------------------------------------------------------------------------
# histories on ONE module object: call, change public attributes / arguments, call again
# ---------------------------------------------------------------------------------------------
_DIMS = ("width", "eos", "fap", "pad_value", "max_iters", "batch_size", "offs")


def _reuse_menu(V, T):
    """configurations (dicts over _DIMS); each differs from the first in one or two respects"""
    base = {"width": 2, "eos": V - 1, "fap": False, "pad_value": None, "max_iters": T, "batch_size": 3,
            "offs": (0, 1, 2)}
    menu = [base]
    for change in (
        {"width": 3}, {"width": 1}, {"width": V ** T + 3}, {"eos": 0}, {"eos": None}, {"fap": True},
        {"pad_value": -7}, {"max_iters": 1}, {"max_iters": T - 1, "fap": True}, {"offs": (2, 0, 1)},
        {"batch_size": 1, "offs": (1,)}, {"batch_size": 1, "offs": (2,), "width": 3},
        {"batch_size": None, "offs": (0,)}, {"batch_size": 2, "offs": (2, 0), "width": 3},
        {"width": 3, "eos": 0, "fap": True, "offs": (1, 1, 0), "max_iters": 2},
    ):
        menu.append(dict(base, **change))
    return menu


def _set_attrs(bs, cfg):
    bs.width = cfg["width"]
    bs.eos = cfg["eos"]
    bs.finish_all_paths = cfg["fap"]
    bs.pad_value = _pad(cfg)


def _pad(cfg):
    from pydrobert.torch import config as ptconfig

    return ptconfig.INDEX_PAD_VALUE if cfg["pad_value"] is None else cfg["pad_value"]


def _new_object(lm, cfg, observed):
    cls = ObservedBeamSearch if observed else M.BeamSearch
    if cfg["eos"] is None:
        return cls(lm, cfg["width"], pad_value=_pad(cfg))
    return cls(lm, cfg["width"], eos=cfg["eos"], finish_all_paths=cfg["fap"], pad_value=_pad(cfg))


_CONSTS = ("width", "eos", "fap", "pad_value")  # BeamSearch.__constants__: reassigning them is counted, not judged


def _check_reuse_pair(ctx, model, lm, a, b, observed, tier, seed, fresh_cache=None):
    """Histories of three calls a, b, a.  If b differs from a only in call arguments (max_iters, batch size,
    initial state) all three calls are made on ONE object built for a.  If b differs in a constructor option
    (a ``__constants__`` attribute) the middle call is made on a second, newly constructed object that shares the
    language model object with the first; additionally the constants are reassigned on a live third object and
    the outcome is only counted.  Every judged 2nd/3rd result must satisfy the per-result property and equal
    (whole returned columns of the usable slots) what a fresh object returns."""
    V = model.V
    changed = [d for d in _DIMS if a[d] != b[d]]
    const_changed = [d for d in changed if d in _CONSTS]
    case = {"kind": "reuse", "V": V, "T": model.depth, "table": model.name, "seed": seed, "tier": tier,
            "first": dict(a, offs=list(a["offs"])), "second": dict(b, offs=list(b["offs"])), "observed": observed}
    fresh_cache = {} if fresh_cache is None else fresh_cache

    def refs_for(cfg):
        key = ("ref",) + tuple(cfg[d] for d in _DIMS)
        if key not in fresh_cache:
            out = {}
            for o in set(cfg["offs"]):
                out[o] = (O.reference_beam(model, o, cfg["width"], cfg["eos"], cfg["fap"], cfg["max_iters"]),
                          O.complete_sequences(model, o, cfg["eos"], cfg["max_iters"]))
            fresh_cache[key] = out
        return fresh_cache[key]

    def call(cfg, bs, sig_extra, ctx_=ctx):
        if bs is None:
            bs = _new_object(lm, cfg, False)
        return _run_search(ctx_, case, lm, cfg["width"], cfg["eos"], cfg["fap"], cfg["max_iters"], cfg["batch_size"],
                           cfg["offs"], isinstance(bs, ObservedBeamSearch), True, bs=bs, sig_extra=sig_extra)

    def fresh(cfg):
        key = ("fresh",) + tuple(cfg[d] for d in _DIMS)
        if key not in fresh_cache:
            fresh_cache[key] = call(cfg, None, {"reused_object": False})
        return fresh_cache[key]

    def equal_to_fresh(got, cfg):
        fr = fresh(cfg)
        if fr is None or got is None:
            return None
        return all(_same_slots(x, y) for x, y in zip(got[0], fr[0])) and got[2] == fr[2]

    try:
        objs = {"A": _new_object(lm, a, observed)}
        if const_changed:
            objs["B"] = _new_object(lm, b, observed)
    except Exception as e:
        ctx.violation({"api": BS, "symptom": "raises", "type": type(e).__name__, "where": "constructor"}, case,
                      {"error": repr(e)[-300:]})
        return
    history = (("A", a), ("B" if const_changed else "A", b), ("A", a))
    for call_no, (which, cfg) in enumerate(history, start=1):
        ctx.transitions += 1
        ctx.state(("reuse", model.name, V, call_no, which) + tuple(str(cfg[d]) for d in _DIMS))
        sig_extra = {"reused_object": call_no > 1, "changed": changed if call_no > 1 else [],
                     "second_object_sharing_lm": bool(const_changed)}
        got = call(cfg, objs[which], sig_extra)
        ctx.case(1, 1 if call_no > 1 and changed else 0)
        if got is None:
            return
        if call_no == 1:
            continue  # an ordinary first call: judged as the fresh result of a
        elems, steps, raw = got
        ok = True
        refs = refs_for(cfg)
        for n, o in enumerate(cfg["offs"]):
            info = {"batch_size": cfg["batch_size"], "N": len(cfg["offs"]), "element": n, "offs": list(cfg["offs"]),
                    "call": call_no, "changed": changed}
            ok = _check_elem(ctx, case, model, o, cfg["eos"], cfg["fap"], cfg["width"], cfg["max_iters"], elems[n],
                             refs[o][0], refs[o][1], info) and ok
        if steps is not None:
            ok = _check_steps(ctx, case, model, cfg["offs"], cfg["eos"], cfg["fap"], steps,
                              {"call": call_no, "changed": changed}) is not None and ok
        if equal_to_fresh(got, cfg) is False:
            fr = fresh(cfg)
            ctx.violation({"api": BS, "symptom": "reused-object-differs-from-fresh", "changed": changed,
                           "call": call_no, "second_object_sharing_lm": bool(const_changed)}, case,
                          {"reused": elems, "fresh": fr[0], "reused_columns": raw, "fresh_columns": fr[2]})
            ok = False
        if ok:
            ctx.traces += 1
            ctx.count("object_reuse_calls_equal_to_fresh")
    if const_changed:
        # constants reassigned on a live object: executed and counted, never judged
        scratch = Ctx()
        try:
            c = _new_object(lm, a, False)
            call(a, c, {}, scratch)
            _set_attrs(c, b)
            honoured = equal_to_fresh(call(b, c, {}, scratch), b)
        except Exception:
            honoured = None
        ctx.count("constants_reassigned_honoured" if honoured else "constants_reassigned_ignored")


def _check_reuse(ctx, model, lm, tier, seed):
    menu = _reuse_menu(model.V, model.depth)
    cache = {}
    for i, a in enumerate(menu):
        for j, b in enumerate(menu):
            _check_reuse_pair(ctx, model, lm, a, b, (i + j) % 2 == 1, tier, seed, cache)


# ---------------------------------------------------------------------------------------------
# the same search spelled / hosted differently: alias spellings of arguments, autograd state, global torch
# state, TorchScript
# ---------------------------------------------------------------------------------------------
def _variant_configs(V, T):
    out = []
    for eos in [None] + list(range(V)):
        for fap in ((False, True) if eos is not None else (False,)):
            for width in (1, 3, V ** T + 3):
                for batch_size, offs in ((3, (0, 1, 2)), (None, (1,)), (1, (0,))):
                    out.append({"width": width, "eos": eos, "fap": fap, "max_iters": T, "batch_size": batch_size,
                                "offs": offs})
    return out


class _default_dtype:
    def __init__(self, dtype):
        self.dtype = dtype

    def __enter__(self):
        self.old = torch.get_default_dtype()
        torch.set_default_dtype(self.dtype)

    def __exit__(self, *exc):
        torch.set_default_dtype(self.old)


def _variants(model, lm, lm_grad, slm, cfg):
    """yields (name, strict, tolerance, exact_columns, thunk); thunk() builds and runs the search and returns
    the module's three outputs. strict=False: a spelling the documentation does not promise - it may be
    refused (any exception), but if it is accepted it must mean the same search."""
    import numpy as np

    V = model.V
    w, eos, fap, m, bsz, offs = (cfg[k] for k in ("width", "eos", "fap", "max_iters", "batch_size", "offs"))

    def init():
        return {"off": torch.tensor(list(offs), dtype=torch.long)}

    def mk(lm_=lm, width=w, eos_=eos):
        return M.BeamSearch(lm_, width) if eos_ is None else M.BeamSearch(lm_, width, eos=eos_, finish_all_paths=fap)

    if eos is not None:
        yield "eos-negative-index", True, 1e-6, True, lambda: mk(eos_=eos - V)(init(), bsz, m)
    yield ("numpy-integers", False, 1e-6, True,
           lambda: mk(width=np.int64(w), eos_=None if eos is None else np.int64(eos))(
               init(), None if bsz is None else np.int64(bsz), np.int64(m)))
    yield "max_iters-0dim-tensor", False, 1e-6, True, lambda: mk()(init(), bsz, torch.tensor(m))
    yield ("integral-floats", False, 1e-6, True,
           lambda: mk(width=float(w), eos_=None if eos is None else float(eos))(init(), bsz, float(m)))

    def kw():
        if eos is None:
            bs = M.BeamSearch(lm=lm, width=w)
        else:
            bs = M.BeamSearch(lm=lm, width=w, eos=eos, finish_all_paths=fap)
        return bs(init(), batch_size=bsz, max_iters=m)

    yield "constructor-and-call-keywords", True, 1e-6, True, kw
    yield ("initial_state-keyword", True, 1e-6, True,
           lambda: mk()(initial_state=init(), batch_size=bsz, max_iters=m))

    def attr():
        bs = mk(width=w + 2)
        bs.width = w
        return bs(init(), bsz, m)

    yield "width-as-stored-attribute", "count", 1e-6, True, attr  # a reassigned constant: counted, not judged
    if all(o == 0 for o in offs):
        yield "initial-state-empty-dict", True, 1e-6, True, lambda: mk()({}, bsz, m)
        yield "initial-state-None", True, 1e-6, True, lambda: mk()(None, bsz, m)
        yield "initial-state-omitted", True, 1e-6, True, lambda: mk()(batch_size=bsz, max_iters=m)
    yield "lm-outputs-require-grad", True, 1e-6, True, lambda: mk(lm_=lm_grad)(init(), bsz, m)

    def no_grad():
        with torch.no_grad():
            return mk(lm_=lm_grad)(init(), bsz, m)

    def inference():
        with torch.inference_mode():
            return mk()(init(), bsz, m)

    def f64():
        with _default_dtype(torch.float64):
            return mk()(init(), bsz, m)

    def f64_lm():
        with _default_dtype(torch.float64):
            return mk(lm_=TableLM(model))(init(), bsz, m)

    yield "no_grad", True, 1e-6, True, no_grad
    yield "inference_mode", True, 1e-6, True, inference
    yield "default-dtype-float64", True, 1e-5, True, f64
    yield "default-dtype-float64-model-too", True, 1e-5, True, f64_lm
    if slm is not None and w != 1:
        yield "torchscript", True, 1e-6, True, lambda: torch.jit.script(mk(lm_=slm))(init(), bsz, m)
        if eos is not None:
            yield ("torchscript-eos-negative-index", True, 1e-6, True,
                   lambda: torch.jit.script(mk(lm_=slm, eos_=eos - V))(init(), bsz, m))


def _check_variant_cfg(ctx, model, lm, lm_grad, slm, cfg, tier, seed, only=None):
    case = {"kind": "variants", "V": model.V, "T": model.depth, "table": model.name, "seed": seed, "tier": tier,
            "cfg": dict(cfg, offs=list(cfg["offs"]))}
    w, eos, fap, m, bsz, offs = (cfg[k] for k in ("width", "eos", "fap", "max_iters", "batch_size", "offs"))
    base = _run_search(ctx, case, lm, w, eos, fap, m, bsz, offs, False, sig_extra={"variant": "plain"})
    ctx.case(1, 0)
    if base is None:
        return
    refs = {o: (O.reference_beam(model, o, w, eos, fap, m), O.complete_sequences(model, o, eos, m))
            for o in set(offs)}
    near = any(r[0]["near_tie"] for r in refs.values())
    for name, strict, tol, exact_cols, thunk in _variants(model, lm, lm_grad, slm, cfg):
        if only is not None and name != only:
            continue
        vcase = dict(case, variant=name)
        if strict == "count":
            scratch = Ctx()
            try:
                got = _run_search(scratch, vcase, lm, w, eos, fap, m, bsz, offs, False, caller=thunk)
                honoured = got is not None and all(_same_slots(x, y, tol) for x, y in zip(got[0], base[0]))
            except Exception:
                honoured = False
            ctx.count("constants_reassigned_honoured" if honoured else "constants_reassigned_ignored")
            continue
        if not strict:
            try:
                out = thunk()
            except Exception:
                ctx.count("loose_spelling_refused")
                continue
            call = (lambda o=out: o)
        else:
            call = thunk
        ctx.case(1, 1)
        ctx.transitions += 1
        got = _run_search(ctx, vcase, lm, w, eos, fap, m, bsz, offs, False, sig_extra={"variant": name},
                          caller=call)
        if got is None:
            continue
        elems, _, raw = got
        ok = True
        for n, o in enumerate(offs):
            info = {"batch_size": bsz, "N": len(offs), "element": n, "offs": list(offs), "variant": name}
            ok = _check_elem(ctx, vcase, model, o, eos, fap, w, m, elems[n], refs[o][0], refs[o][1], info) and ok
        if tol > 1e-6 and near:
            ctx.count("downgraded_near_tie")
        else:
            same = all(_same_slots(x, y, tol) for x, y in zip(elems, base[0])) and (
                not exact_cols or raw == base[2])
            if not same:
                ctx.violation({"api": BS, "symptom": "variant-differs-from-plain-call", "variant": name}, vcase,
                              {"variant": elems, "plain": base[0], "variant_columns": raw, "plain_columns": base[2]})
                ok = False
        if ok:
            ctx.traces += 1
            ctx.count("variant_calls_equal_to_plain")
            ctx.outcome(("variant", name))


def _check_variants(ctx, model, tier, seed):
    lm = TableLM(model)
    lm_grad = TableLM(model, trainable=True)
    try:
        slm = torch.jit.script(ScriptTableLM(model))
    except Exception as e:  # the harness model, not the library
        slm = None
        ctx.notes.append(f"scriptable table LM could not be scripted: {e!r}"[:300])
        ctx.capped.append("torchscript variants skipped (harness LM not scriptable)")
    for cfg in _variant_configs(model.V, model.depth):
        _check_variant_cfg(ctx, model, lm, lm_grad, slm, cfg, tier, seed)


# ---------------------------------------------------------------------------------------------
# object lifecycle: the module after deepcopy / pickle / torch.save+load / state_dict round trips ...
# ---------------------------------------------------------------------------------------------
_LIFE_KINDS = ("deepcopy", "pickle", "torch.save", "used+deepcopy", "eval+deepcopy", "state_dict",
               "state_dict-after-use", "double-float", "state_dict-into-other")
_LIFE_BATCHES = ((3, (0, 1, 2)), (None, (1,)), (1, (2,)))


def _life_configs(V):
    """constructor options incl. FALSY-but-legal ones: eos 0 (also spelled -V), pad_value 0, flag False"""
    out = []
    for eos in (0, V - 1, None, -V, -1):
        for fap, pad in ((False, None), (True, 0)):
            out.append({"width": 2 if pad is None else 3, "eos": eos, "fap": fap and eos is not None, "pad_value": pad})
    return out


def _norm_eos(eos, V):
    return None if eos is None else (eos + V) % V


def _check_lifecycle_cfg(ctx, model, other_model, slm, cfg, T, tier, seed, only=None):
    import copy
    import io

    from mc import guards

    V = model.V
    case = {"kind": "lifecycle", "V": V, "T": T, "table": model.name, "seed": seed, "tier": tier, "cfg": cfg}
    w, eos, fap = cfg["width"], _norm_eos(cfg["eos"], V), cfg["fap"]
    ref_lm = TableLM(model)  # only carries V / the model name for _run_search
    other = {"width": w + 1, "eos": 1 if eos == 0 else 0, "fap": not fap, "pad_value": 0 if cfg["pad_value"] is None else None}

    def build(mdl, c):
        return _new_object(TableLM(mdl, trainable=True), c, False)

    def make():
        return build(model, cfg)

    def make_other():
        return build(other_model, other)

    def used(obj):
        obj.lm.calls_left = 10 ** 9
        obj({"off": torch.tensor([0, 1, 2])}, 3, T)

    def run(obj, c_w, c_eos, c_fap, bsz, offs, name, ctx_=ctx):
        def caller():
            if hasattr(obj, "lm") and hasattr(obj.lm, "calls_left"):
                obj.lm.calls_left = STEP_CAP
            return obj({"off": torch.tensor(list(offs), dtype=torch.long)}, bsz, T)

        return _run_search(ctx_, dict(case, lifecycle=name, batch_size=bsz, offs=list(offs)), ref_lm, c_w, c_eos,
                           c_fap, T, bsz, offs, False, sig_extra={"lifecycle": name}, caller=caller)

    variants = []
    for kind in _LIFE_KINDS:
        if only is not None and kind != only:
            continue
        try:
            variants.extend(guards.lifecycle_variants(make, used, kinds=[kind], make_other=make_other))
        except Exception as e:  # building the variant itself failed (or eval mode lost)
            ctx.case(1, 1)
            ctx.violation({"api": BS, "symptom": "lifecycle-operation-fails", "lifecycle": kind,
                           "type": type(e).__name__}, dict(case, lifecycle=kind), {"error": repr(e)[-300:]})
    if slm is not None and only in (None, "scripted+jit.save-load", "scripted+deepcopy"):
        try:
            mk = lambda: torch.jit.script(_new_object(slm, cfg, False))  # noqa: E731
            buf = io.BytesIO()
            torch.jit.save(mk(), buf)
            buf.seek(0)
            variants.append(("scripted+jit.save-load", torch.jit.load(buf)))
            variants.append(("scripted+deepcopy", copy.deepcopy(mk())))
        except Exception as e:
            ctx.case(1, 1)
            ctx.violation({"api": BS, "symptom": "lifecycle-operation-fails", "lifecycle": "scripted",
                           "type": type(e).__name__}, dict(case, lifecycle="scripted"), {"error": repr(e)[-300:]})
    fresh_obj, exp_other_obj = make(), build(model, other)
    for bsz, offs in _LIFE_BATCHES:
        fresh = run(fresh_obj, w, eos, fap, bsz, offs, "fresh")
        ctx.case(1, 0)
        exp_other = None
        for name, obj in variants:
            into_other = name == "state_dict-into-other"
            c_w, c_eos, c_fap = (other["width"], other["eos"], other["fap"]) if into_other else (w, eos, fap)
            if into_other and exp_other is None:
                exp_other = run(exp_other_obj, c_w, c_eos, c_fap, bsz, offs, "fresh-with-other-options")
            want = exp_other if into_other else fresh
            ctx.case(1, 1)
            ctx.transitions += 1
            ctx.state(("life", model.name, V, name, str(cfg), bsz, offs))
            got = run(obj, c_w, c_eos, c_fap, bsz, offs, name)
            if got is None or want is None:
                continue
            ok = True
            for n, o in enumerate(offs):
                ref = O.reference_beam(model, o, c_w, c_eos, c_fap, T)
                ok = _check_elem(ctx, dict(case, lifecycle=name, batch_size=bsz, offs=list(offs)), model, o, c_eos,
                                 c_fap, c_w, T, got[0][n], ref, O.complete_sequences(model, o, c_eos, T),
                                 {"batch_size": bsz, "N": len(offs), "element": n, "offs": list(offs),
                                  "lifecycle": name}) and ok
            if not (all(_same_slots(x, y) for x, y in zip(got[0], want[0])) and got[2] == want[2]):
                ctx.violation({"api": BS, "symptom": "lifecycle-variant-differs-from-fresh", "lifecycle": name,
                               "eos_is_token_0": eos == 0, "pad_value_0": cfg["pad_value"] == 0},
                              dict(case, lifecycle=name, batch_size=bsz, offs=list(offs)),
                              {"variant": got[0], "fresh": want[0], "variant_columns": got[2], "fresh_columns": want[2]})
                ok = False
            if ok:
                ctx.traces += 1
                ctx.count("lifecycle_variant_calls_equal_to_fresh")
                ctx.outcome(("life", name))


def _check_lifecycle(ctx, model, other_model, tier, seed):
    try:
        slm = torch.jit.script(ScriptTableLM(model))
    except Exception:
        slm = None
    for cfg in _life_configs(model.V):
        _check_lifecycle_cfg(ctx, model, other_model, slm, cfg, model.depth, tier, seed)


# ---------------------------------------------------------------------------------------------
# functional.beam_search_advance, step by step
# ---------------------------------------------------------------------------------------------
def _drive_advance(ctx, model, offs, widths, eos, use_lens, seed, tier):
    """A search loop written here (eos handling as lists) around the real advance function. Each step is
    compared with the top-k of the joint table; ties (e.g. among minus-infinity candidates) may be broken
    any way."""
    V = model.V
    N = len(offs)
    case = {"kind": "advance", "V": V, "T": model.depth, "table": model.name, "seed": seed, "offs": list(offs),
            "widths": list(widths), "eos": eos, "use_lens": use_lens, "tier": tier}
    # mirror of the beam: per element a list of (tokens, finished, alive)
    beams = [[((), False, True)] for _ in range(N)]
    y = torch.empty((0, N, 1), dtype=torch.long)
    lp_prev = torch.zeros((N, 1))
    lens = torch.zeros((N, 1), dtype=torch.long)
    for t, width in enumerate(widths):
        Kp = len(beams[0])
        ext = []
        for n in range(N):
            rows = []
            for toks, fin, alive in beams[n]:
                if fin:
                    rows.append([0.0 if v == eos else NEG_INF for v in range(V)])
                elif alive:
                    rows.append(model.log_probs(toks, offs[n]))
                else:
                    rows.append(model.log_probs((), offs[n]))
            ext.append(rows)
        lpt = torch.tensor(ext, dtype=torch.float32)
        prev_scores = lp_prev.tolist()
        ext32 = lpt.tolist()
        prev_lens = lens.tolist()
        y_prev_l = y.permute(1, 2, 0).tolist()
        ctx.case(N, N if Kp * V > width else 0)
        ctx.transitions += N
        try:
            y_next, lens_next, lp_next, src = F.beam_search_advance(lpt, width, lp_prev, y, lens if use_lens else None)
        except Exception as e:
            ctx.violation({"api": ADV, "symptom": "raises", "type": type(e).__name__, "lens_given": use_lens,
                           "all_paths_shorter_than_buffer": bool(use_lens and y.size(0) and int(lens.max()) < y.size(0)),
                           "fewer_candidates_than_width": Kp * V < width},
                          case, {"step": t, "error": repr(e)[-400:], "log_probs_t": ext32, "width": width,
                                 "log_probs_prev": prev_scores, "y_prev": y_prev_l, "y_prev_lens": prev_lens})
            return
        S_next = y_next.size(0)
        if (tuple(y_next.shape[1:]) != (N, width) or tuple(lens_next.shape) != (N, width)
                or tuple(lp_next.shape) != (N, width) or tuple(src.shape) != (N, width)
                or S_next not in (y.size(0), y.size(0) + 1)):
            ctx.violation({"api": ADV, "symptom": "wrong-shape"}, case,
                          {"step": t, "y_next": list(y_next.shape), "lens": list(lens_next.shape)})
            return
        yn = y_next.permute(1, 2, 0).tolist()
        ln, pn, sn = lens_next.tolist(), lp_next.tolist(), src.tolist()
        new_beams = []
        for n in range(N):
            exp, near = O.topk_joint(prev_scores[n], ext32[n], width)
            K = len(exp)
            det = {"step": t, "element": n, "expected_topk": exp, "scores": pn[n], "src": sn[n], "lens": ln[n],
                   "y_next": yn[n], "prev_scores": prev_scores[n], "prev_lens": prev_lens[n], "y_prev": y_prev_l[n]}
            used = set()
            nb = []
            for k in range(width):
                if k >= K:
                    if pn[n][k] != NEG_INF:
                        ctx.violation({"api": ADV, "symptom": "filler-slot-not-minus-inf"}, case, det)
                        return
                    nb.append(((), False, False))
                    continue
                if not _close(pn[n][k], exp[k][0]):
                    ctx.violation({"api": ADV, "symptom": "not-topk-of-joint-table"}, case, dict(det, slot=k))
                    return
                if pn[n][k] == NEG_INF:
                    nb.append(((), False, False))  # unusable, whatever it holds
                    continue
                s = sn[n][k]
                if not 0 <= s < Kp:
                    ctx.violation({"api": ADV, "symptom": "source-out-of-range"}, case, dict(det, slot=k))
                    return
                L = prev_lens[n][s]
                if ln[n][k] != L + 1 or L + 1 > S_next:
                    ctx.violation({"api": ADV, "symptom": "wrong-length", "lens_given": use_lens}, case,
                                  dict(det, slot=k, expected_len=L + 1))
                    return
                tok = yn[n][k][L]
                if not 0 <= tok < V or not _close(prev_scores[n][s] + ext32[n][s][tok], pn[n][k]) or (s, tok) in used:
                    ctx.violation({"api": ADV, "symptom": "path-does-not-match-its-score"}, case, dict(det, slot=k))
                    return
                used.add((s, tok))
                if yn[n][k][:L] != y_prev_l[n][s][:L]:
                    ctx.violation({"api": ADV, "symptom": "prefix-not-gathered-from-source",
                                   "lens_given": use_lens}, case, dict(det, slot=k))
                    return
                if not near and (s, tok) != (exp[k][1], exp[k][2]):
                    ctx.violation({"api": ADV, "symptom": "not-topk-of-joint-table"}, case, dict(det, slot=k))
                    return
                toks_s, fin_s, _ = beams[n][s]
                if fin_s:
                    nb.append((toks_s, True, True))
                else:
                    nb.append((toks_s + (tok,), eos is not None and tok == eos, True))
            if near:
                ctx.count("advance_steps_with_near_tie")
            new_beams.append(nb)
            ctx.state(("adv", model.name, V, offs[n], eos, t, tuple(b[0] for b in nb if b[2])))
            ctx.outcome(("adv", K, tuple(ln[n][:K])))
        # emulate the caller: a path that had ended keeps its length
        if eos is not None:
            dec = torch.tensor([[1 if (k < len(new_beams[n]) and new_beams[n][k][2] and sn[n][k] < Kp
                                       and beams[n][sn[n][k]][1]) else 0 for k in range(width)]
                                for n in range(N)], dtype=torch.long)
            lens_next = lens_next - dec
        beams = new_beams
        y, lens, lp_prev = y_next.clamp(0, V - 1), lens_next, lp_next
    ctx.traces += 1


# ---------------------------------------------------------------------------------------------
def _widths(V, T, spec):
    ws = list(range(1, V ** T + 4))
    return [w for i, w in enumerate(ws) if i % spec["parts"] == spec["part"]]


def run_shard(spec, tier, seed):
    ctx = Ctx()
    V, T = spec["V"], spec["T"]
    if spec["kind"] == "search":
        model = O.make_model(V, T, spec["table"], seed)
        lm = TableLM(model)
        eos = spec["eos"]
        for fap in ((False, True) if eos is not None else (False,)):
            for width in _widths(V, T, spec):
                for max_iters in range(T + 1):
                    _check_config(ctx, model, lm, eos, fap, width, max_iters, tier, seed)
        if spec["part"] == 0 and eos in (None, V - 1):
            r = O.reference_beam(model, 1, 2, eos, True, T)
            ctx.sample({"V": V, "table": spec["table"], "eos": eos, "width": 2, "max_iters": T, "off": 1,
                        "finish_all_paths": True, "reference_beam": [[list(t), round(s, 4), f] for t, s, f in r["beam"]],
                        "root_log_probs": [round(x, 3) if x != NEG_INF else "-inf" for x in model.log_probs((), 1)]})
        ctx.count("lm_calls", lm.n_calls)
        ctx.count("lm_state_reorderings", lm.n_extract)
        ctx.count("lm_out_of_vocab_tokens_seen", lm.n_oov)
    elif spec["kind"] == "unbounded":
        for eos in range(V):
            model = O.make_deep_model(V, T, spec["table"], seed, eos)
            lm = TableLM(model)
            for fap in (False, True):
                for width in sorted({1, 2, 3, 5, V ** T + 3}):
                    _check_config(ctx, model, lm, eos, fap, width, None, tier, seed, deep=True)
                    ctx.count("searches_without_step_limit_configs")
    elif spec["kind"] == "reuse":
        model = O.make_model(V, T, spec["table"], seed)
        _check_reuse(ctx, model, TableLM(model), tier, seed)
    elif spec["kind"] == "variants":
        _check_variants(ctx, O.make_model(V, T, spec["table"], seed), tier, seed)
    elif spec["kind"] == "lifecycle":
        _check_lifecycle(ctx, O.make_model(V, T, spec["table"], seed),
                         O.make_model(V, T, "flat" if spec["table"] != "flat" else "seeded-0", seed + 1), tier, seed)
    else:
        model = O.make_model(V, T, spec["table"], seed)
        for eos in [None] + list(range(V)):
            for w in range(1, V ** T + 4):
                scheds = [[w] * (T + 1)]
                if w % 3 == 1 or tier == "thorough":
                    scheds.append([w, max(1, w // 2), w + 2, w, 1][: T + 1])
                for sched in scheds:
                    for offs in ((0, 1, 2), (2,)):
                        _drive_advance(ctx, model, offs, sched, eos, True, seed, tier)
                        if eos is None:
                            _drive_advance(ctx, model, offs, sched, None, False, seed, tier)
    return ctx


def replay(case):
    ctx = Ctx()
    V, T, seed, tier = case["V"], case["T"], case["seed"], case["tier"]
    if case["kind"] == "search":
        if case.get("deep"):
            model = O.make_deep_model(V, T, case["table"], seed, case["eos"])
        else:
            model = O.make_model(V, T, case["table"], seed)
        _check_config(ctx, model, TableLM(model), case["eos"], case["fap"], case["width"], case["max_iters"],
                      tier, seed, deep=bool(case.get("deep")))
    elif case["kind"] == "reuse":
        model = O.make_model(V, T, case["table"], seed)
        a, b = (dict(c, offs=tuple(c["offs"])) for c in (case["first"], case["second"]))
        _check_reuse_pair(ctx, model, TableLM(model), a, b, case["observed"], tier, seed)
    elif case["kind"] == "lifecycle":
        model = O.make_model(V, T, case["table"], seed)
        other = O.make_model(V, T, "flat" if case["table"] != "flat" else "seeded-0", seed + 1)
        try:
            slm = torch.jit.script(ScriptTableLM(model))
        except Exception:
            slm = None
        _check_lifecycle_cfg(ctx, model, other, slm, case["cfg"], T, tier, seed, only=case.get("lifecycle"))
    elif case["kind"] == "variants":
        model = O.make_model(V, T, case["table"], seed)
        cfg = dict(case["cfg"], offs=tuple(case["cfg"]["offs"]))
        try:
            slm = torch.jit.script(ScriptTableLM(model))
        except Exception:
            slm = None
        _check_variant_cfg(ctx, model, TableLM(model), TableLM(model, trainable=True), slm, cfg, tier, seed,
                           only=case.get("variant"))
    elif case["kind"] == "advance":
        model = O.make_model(V, T, case["table"], seed)
        _drive_advance(ctx, model, tuple(case["offs"]), case["widths"], case["eos"], case["use_lens"], seed, tier)
    else:
        raise ValueError("shard-level failure: re-run ./check C04")
    return ctx
