"""C17: process-global state.  A slice of every family is evaluated twice in the same process - with torch's
stock default dtype and under ``torch.set_default_dtype(torch.float64)`` set by the caller.  Everything the
commands write or print must be the same in both runs, and (checked inside the family evaluation itself)
the same for 0 workers and for workers; the virtual spawn pool runs its work with the default dtype reset
to float32, as a freshly spawned interpreter would, and the thorough tier repeats it with the real pool."""

import torch

from mc.runner import Ctx, jsonable
from checks._c17_common import Env
from checks import _c17_order as OR

PER_FAMILY = 36


class _RecCtx(Ctx):
    def __init__(self):
        super().__init__()
        self.log = []

    def outcome(self, o):
        self.log.append(jsonable(o))
        super().outcome(o)


def make(families):
    def cases(tier, seed):
        for fam, (gen, _, _) in families.items():
            if fam in ("f64", "life", "flags", "ls"):  # life/flags compare runs with each other, not with an oracle
                continue
            allc = list(gen(tier, seed))
            if fam == "ord":
                pick = [c for c in allc if c.get("big_ids") is not None or c["kind"] in ("randmeta", "trnmeta")]
                pick = pick[:: max(1, len(pick) // PER_FAMILY)]
            else:
                pick = allc[seed % 7:: max(1, len(allc) // PER_FAMILY)]
            marked = False
            for c in pick:
                c = dict(c)
                c.pop("fresh", None)
                c.pop("real", None)
                if tier == "thorough" and not marked and fam == "ord" and c["kind"] in ("ctm", "tg"):
                    c["real"] = True  # real spawn pool below a parent whose default dtype is float64
                    marked = c["kind"] == "tg"
                yield dict(fam="f64", inner_fam=fam, inner=c)

    def evaluate(env, case):
        ev = families[case["inner_fam"]][1]
        logs = {}
        for name, dt in (("float32", torch.float32), ("float64", torch.float64)):
            rc = _RecCtx()
            e2 = Env(rc, env.root, env.tier, env.seed)
            e2.tag = "default-dtype-" + name
            e2.extra_sig = {"default_dtype": name}
            e2.case_override = case
            inner = dict(case["inner"])
            if name == "float32":
                inner.pop("real", None)
            old = torch.get_default_dtype()
            torch.set_default_dtype(dt)
            try:
                ev(e2, inner)
            finally:
                torch.set_default_dtype(old)
            logs[name] = rc.log
            if name == "float64":
                rc.samples = []
                env.ctx.merge(rc)
        env.ctx.count("cases-under-float64-default")
        if logs["float32"] != logs["float64"]:
            a, b = logs["float32"], logs["float64"]
            i = next((k for k in range(min(len(a), len(b))) if a[k] != b[k]), min(len(a), len(b)))
            inner = case["inner"]
            late = any(isinstance(x, int) and x > 2 ** 24 for u in inner.get("utts", ()) if isinstance(u, dict)
                       for seg in u.get("segs", ()) for x in seg)
            env.ctx.violation({"api": case["inner_fam"], "kind": inner.get("kind"), "late_times": late,
                               "symptom": "output-depends-on-default-dtype"}, case,
                              {"first_difference_at_observation": i, "float32_default": a[i: i + 1],
                               "float64_default": b[i: i + 1]})

    return cases, evaluate
