"""Shared enumeration for C01-C03: every (ref, hyp) pair over a 3-letter alphabet."""

import itertools

import torch

from mc.oracles import strings as O

SIGMA = (0, 1, 2)  # 2 doubles as eos
# (1, 1, 1.5) / (1, 2, 0.5): Python ints on purpose (alias spelling of the same costs); 0.7: not a dyadic rational
COSTS_QUICK = [(1.0, 1.0, 1.0), (0.5, 0.5, 0.5), (1.0, 2.0, 3.0), (0.5, 1.0, 1.0), (0.7, 0.7, 0.7), (1, 1, 1.5)]
COSTS_ALL = COSTS_QUICK + [
    (2.0, 1.0, 1.0),
    (1.0, 1.0, 0.5),
    (3.0, 3.0, 4.0),
    (1.0, 1.0, 2.5),
    (0.3, 0.3, 0.3),
    (1, 2, 0.5),
]


def max_len(tier):
    return 3 if tier == "quick" else 4


def costs(tier):
    return COSTS_QUICK if tier == "quick" else COSTS_ALL


def all_strings(L, sigma=SIGMA):
    return list(itertools.product(sigma, repeat=L))


def pair_batch(R, H, reverse=False, sigma=SIGMA):
    """All pairs of stored sequences with tensor sizes R and H, as (R,N) / (H,N) tensors."""
    refs = all_strings(R, sigma)
    hyps = all_strings(H, sigma)
    pairs = [(r, h) for r in refs for h in hyps]
    if reverse:
        pairs = pairs[::-1]
    N = len(pairs)
    ref = torch.tensor([p[0] for p in pairs], dtype=torch.long).view(N, R).t().contiguous()
    hyp = torch.tensor([p[1] for p in pairs], dtype=torch.long).view(N, H).t().contiguous()
    return pairs, ref, hyp


def eos_cfgs():
    # (eos, include_eos)
    return [(None, False), (2, False), (2, True)]


def close(a, b, tol=1e-5):
    return abs(a - b) <= tol * (1.0 + abs(b))


def eff_pair(pair, eos, include_eos):
    return O.effective(pair[0], eos, include_eos), O.effective(pair[1], eos, include_eos)


def large_batch(R, H, N, seed, eos=3, id_offset=0):
    """Deterministic larger instance: hyp resembles ref with edits; eos in a third of the rows of each side.
    Returned tensors are OFFSET, NON-CONTIGUOUS views (a column block of a larger buffer) on purpose."""
    x = 12345 + 7919 * seed

    def nxt():
        nonlocal x
        x = (1103515245 * x + 12345) % (2 ** 31)
        return x >> 16

    refs, hyps = [], []
    for n in range(N):
        r = [nxt() % 3 for _ in range(R)]
        h = [r[i % R] if nxt() % 4 else nxt() % 3 for i in range(H)]
        if n % 3 == 1:
            r[nxt() % R] = eos
        if n % 3 == 2:
            h[nxt() % H] = eos
        if n == 4:
            r[0] = eos  # an empty reference
        if n == 5:
            h[0] = eos  # an empty hypothesis
        refs.append([t + id_offset for t in r])
        hyps.append([t + id_offset for t in h])
    rb = torch.full((R + 2, N + 3), 1, dtype=torch.long)
    hb = torch.full((H + 2, N + 3), 2, dtype=torch.long)
    rb[1:R + 1, 2:N + 2] = torch.tensor(refs).t()
    hb[1:H + 1, 2:N + 2] = torch.tensor(hyps).t()
    return refs, hyps, rb[1:R + 1, 2:N + 2], hb[1:H + 1, 2:N + 2]


import contextlib


@contextlib.contextmanager
def global_state(name):
    """Global interpreter / torch state that must not change any result."""
    if name == "default":
        yield
    elif name == "float64-default":
        old = torch.get_default_dtype()
        torch.set_default_dtype(torch.float64)
        try:
            yield
        finally:
            torch.set_default_dtype(old)
    elif name == "inference-mode":
        with torch.inference_mode():
            yield
    elif name == "no-grad":
        with torch.no_grad():
            yield
    else:
        raise ValueError(name)


GLOBAL_STATES = ("default", "float64-default", "inference-mode", "no-grad")


BIG_ID = 2 ** 24  # token ids from here on are not exactly representable in float32 steps of 1


def jit_variants(make_module, example):
    """(name, callable) for the scripted and the traced module; the tracing example is deliberately unrelated to
    the inputs the variants are evaluated on (as the repository's own trace tests do)."""
    out = []
    try:
        out.append(("scripted", torch.jit.script(make_module())))
    except Exception as e:  # noqa: BLE001
        out.append(("scripted", e))
    try:
        out.append(("traced", torch.jit.trace(make_module(), example)))
    except Exception as e:  # noqa: BLE001
        out.append(("traced", e))
    return out
