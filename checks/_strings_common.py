"""Shared enumeration for C01-C03: every (ref, hyp) pair over a 3-letter alphabet."""

import itertools

import torch

from mc.oracles import strings as O

SIGMA = (0, 1, 2)  # 2 doubles as eos
# (1, 1, 1.5) / (1, 2, 0.5): Python ints on purpose (alias spelling of the same costs); 0.7: not a dyadic rational
COSTS_QUICK = [(1.0, 1.0, 1.0), (0.5, 0.5, 0.5), (1.0, 2.0, 3.0), (0.5, 1.0, 1.0), (0.7, 0.7, 0.7), (1, 1, 1.5)]
COSTS_ALL = COSTS_QUICK + [
    (2.0, 1.0, 1.0),
    (1.0, 1.0, 0.5),
    (3.0, 3.0, 4.0),
    (1.0, 1.0, 2.5),
    (0.3, 0.3, 0.3),
    (1, 2, 0.5),
]


def max_len(tier):
    return 3 if tier == "quick" else 4


def costs(tier):
    return COSTS_QUICK if tier == "quick" else COSTS_ALL


def all_strings(L, sigma=SIGMA):
    return list(itertools.product(sigma, repeat=L))


def pair_batch(R, H, reverse=False, sigma=SIGMA):
    """All pairs of stored sequences with tensor sizes R and H, as (R,N) / (H,N) tensors."""
    refs = all_strings(R, sigma)
    hyps = all_strings(H, sigma)
    pairs = [(r, h) for r in refs for h in hyps]
    if reverse:
        pairs = pairs[::-1]
    N = len(pairs)
    ref = torch.tensor([p[0] for p in pairs], dtype=torch.long).view(N, R).t().contiguous()
    hyp = torch.tensor([p[1] for p in pairs], dtype=torch.long).view(N, H).t().contiguous()
    return pairs, ref, hyp


def eos_cfgs():
    # (eos, include_eos)
    return [(None, False), (2, False), (2, True)]


def close(a, b, tol=1e-5):
    return abs(a - b) <= tol * (1.0 + abs(b))


def eff_pair(pair, eos, include_eos):
    return O.effective(pair[0], eos, include_eos), O.effective(pair[1], eos, include_eos)


def large_batch(R, H, N, seed, eos=3, id_offset=0):
    """Deterministic larger instance: hyp resembles ref with edits; eos in a third of the rows of each side.
    Returned tensors are OFFSET, NON-CONTIGUOUS views (a column block of a larger buffer) on purpose."""
    x = 12345 + 7919 * seed

    def nxt():
        nonlocal x
        x = (1103515245 * x + 12345) % (2 ** 31)
        return x >> 16

    refs, hyps = [], []
    for n in range(N):
        r = [nxt() % 3 for _ in range(R)]
        h = [r[i % R] if nxt() % 4 else nxt() % 3 for i in range(H)]
        if n % 3 == 1:
            r[nxt() % R] = eos
        if n % 3 == 2:
            h[nxt() % H] = eos
        if n == 4:
            r[0] = eos  # an empty reference
        if n == 5:
            h[0] = eos  # an empty hypothesis
        refs.append([t + id_offset for t in r])
        hyps.append([t + id_offset for t in h])
    rb = torch.full((R + 2, N + 3), 1, dtype=torch.long)
    hb = torch.full((H + 2, N + 3), 2, dtype=torch.long)
    rb[1:R + 1, 2:N + 2] = torch.tensor(refs).t()
    hb[1:H + 1, 2:N + 2] = torch.tensor(hyps).t()
    return refs, hyps, rb[1:R + 1, 2:N + 2], hb[1:H + 1, 2:N + 2]


import contextlib


@contextlib.contextmanager
def global_state(name):
    """Global interpreter / torch state that must not change any result."""
    if name == "default":
        yield
    elif name == "float64-default":
        old = torch.get_default_dtype()
        torch.set_default_dtype(torch.float64)
        try:
            yield
        finally:
            torch.set_default_dtype(old)
    elif name == "inference-mode":
        with torch.inference_mode():
            yield
    elif name == "no-grad":
        with torch.no_grad():
            yield
    else:
        raise ValueError(name)


GLOBAL_STATES = ("default", "float64-default", "inference-mode", "no-grad")


BIG_ID = 2 ** 24  # token ids from here on are not exactly representable in float32 steps of 1


def jit_variants(make_module, example):
    """(name, callable) for the scripted and the traced module; the tracing example is deliberately unrelated to
    the inputs the variants are evaluated on (as the repository's own trace tests do)."""
    out = []
    try:
        out.append(("scripted", torch.jit.script(make_module())))
    except Exception as e:  # noqa: BLE001
        out.append(("scripted", e))
    try:
        out.append(("traced", torch.jit.trace(make_module(), example)))
    except Exception as e:  # noqa: BLE001
        out.append(("traced", e))
    return out


# ---------------------------------------------------------------------------------------------------------------
# Object lifecycle and secondary entry points (round 5): a module that went through deepcopy / pickle / torch.save /
# state_dict / dtype conversion must compute exactly what the freshly constructed module computes, and the Module
# path must compute what the functional path computes for the same options.  Options are enumerated one factor at
# a time around three bases that use FALSY-but-legal values (eos=0, flags False, padding 0, a zero cost).
def _life_bases():
    return [
        dict(eos=0, include_eos=False, norm=False, batch_first=False, ins_cost=1.0, del_cost=1.0, sub_cost=1.0,
             padding=0, exclude_last=False, sub_avg=False, reduction="none", ignore_index=-2),
        dict(eos=2, include_eos=True, norm=True, batch_first=True, ins_cost=1.0, del_cost=2.0, sub_cost=0.5,
             padding=-100, exclude_last=True, sub_avg=True, reduction="sum", ignore_index=5),
        dict(eos=None, include_eos=False, norm=True, batch_first=False, ins_cost=2.0, del_cost=2.0, sub_cost=2.0,
             padding=7, exclude_last=False, sub_avg=False, reduction="mean", ignore_index=-100),
    ]


_LIFE_ALT = dict(eos=(0, 1, 2, None), include_eos=(False, True), norm=(False, True), batch_first=(False, True),
                 ins_cost=(0.5,), del_cost=(3.0,), sub_cost=(0.0, 3.0), padding=(0, -1), exclude_last=(False, True),
                 sub_avg=(False, True), reduction=("none", "sum", "mean"), ignore_index=(0,))


def life_configs():
    seen, out = set(), []
    for base in _life_bases():
        cands = [dict(base)] + [dict(base, **{k: v}) for k, vals in _LIFE_ALT.items() for v in vals]
        for c in cands:
            key = tuple(sorted((k, repr(v)) for k, v in c.items()))
            if key not in seen:
                seen.add(key)
                out.append(c)
    return out


def _same(a, b):
    return (isinstance(a, torch.Tensor) and isinstance(b, torch.Tensor) and a.shape == b.shape and a.dtype == b.dtype
            and bool(((a != a) & (b != b) | (a == b)).all()))


def lifecycle_pass(ctx, names, seed):
    """names: module class names of pydrobert.torch.modules driven by the calling check."""
    import inspect
    import random

    import pydrobert.torch.functional as F
    import pydrobert.torch.modules as M
    from mc.guards import GuardViolation, lifecycle_variants

    fn_of = {"EditDistance": "edit_distance", "PrefixEditDistances": "prefix_edit_distances",
             "ErrorRate": "error_rate", "PrefixErrorRates": "prefix_error_rates",
             "OptimalCompletion": "optimal_completion",
             "HardOptimalCompletionDistillationLoss": "hard_optimal_completion_distillation_loss",
             "MinimumErrorRateLoss": "minimum_error_rate_loss"}
    rng = random.Random(seed * 31 + 5)
    pairs, ref, hyp = pair_batch(2, 3)          # (R, N), (H, N): every pair over {0,1,2}
    pairs2, ref2, hyp2 = pair_batch(3, 2)       # another shape, used to exercise an object before it is copied
    for name in names:
        cls, fn = getattr(M, name), getattr(F, fn_of[name])
        init_keys = set(inspect.signature(cls.__init__).parameters) - {"self"}
        fwd_warn = "warn" in inspect.signature(cls.forward).parameters
        done = set()
        for cfg_all in life_configs():
            cfg = {k: v for k, v in cfg_all.items() if k in init_keys}
            key = tuple(sorted((k, repr(v)) for k, v in cfg.items()))
            if key in done:
                continue
            done.add(key)
            bf = cfg.get("batch_first", False)

            def inputs(r, h):
                N, H = h.size(1), h.size(0)
                if name == "HardOptimalCompletionDistillationLoss":
                    lg = torch.tensor([[[round(rng.uniform(-2, 2), 3) for _ in range(3)] for _ in range(N)]
                                       for _ in range(H)])
                    return (lg.transpose(0, 1), r.t(), h.t()) if bf else (lg, r, h)
                if name == "MinimumErrorRateLoss":
                    Mm = 3  # samples per batch element: N // 3 batch elements
                    Nb = N // Mm
                    hh = h[:, :Nb * Mm].reshape(H, Nb, Mm)
                    rr = r[:, :Nb * Mm].reshape(r.size(0), Nb, Mm)[:, :, 0]
                    lp = torch.tensor([[round(rng.uniform(-2, 0), 3) for _ in range(Mm)] for _ in range(Nb)])
                    return (lp, rr.t(), hh.permute(1, 2, 0)) if bf else (lp, rr, hh)
                return (r.t(), h.t()) if bf else (r, h)

            args, args2 = inputs(ref, hyp), inputs(ref2, hyp2)
            kw = dict(cfg)
            if "warn" in init_keys:
                kw["warn"] = False
            call_kw = {"warn": False} if fwd_warn else {}

            def make():
                return cls(**kw)

            falsy = any((v == 0 or v is False) and v is not None for v in cfg.values())
            case = {"kind": "lifecycle", "module": name, "cfg": {k: v for k, v in cfg.items()}}
            ctx.case(1, 1)
            try:
                want = make()(*[a.clone() for a in args], **call_kw)
                via_fn = fn(*[a.clone() for a in args], **dict(cfg, warn=False))
            except Exception as e:  # noqa: BLE001
                ctx.violation({"api": name, "symptom": "raises", "type": type(e).__name__, "lifecycle": "fresh"}, case,
                              {"error": str(e)[-300:]})
                continue
            if not _same(want, via_fn):
                ctx.violation({"api": name, "symptom": "module-differs-from-functional",
                               "uniform_costs": len({cfg.get("ins_cost"), cfg.get("del_cost"), cfg.get("sub_cost")}) == 1},
                              case, {"module": want.tolist(), "functional": via_fn.tolist()})
                continue
            try:
                for vname, obj in lifecycle_variants(make, used=lambda m: m(*[a.clone() for a in args2], **call_kw)):
                    ctx.case(1, 1)
                    ctx.count("lifecycle_variants_compared")
                    got = obj(*[a.clone() for a in args], **call_kw)
                    if not _same(want, got):
                        ctx.violation({"api": name, "symptom": "lifecycle-variant-differs-from-fresh-object",
                                       "variant": vname, "falsy_options": falsy}, dict(case, variant=vname),
                                      {"fresh": want.tolist(), "variant": got.tolist()})
                        break
                else:
                    ctx.outcome([name, list(want.shape)])
            except GuardViolation as e:
                ctx.violation({"api": name, "symptom": "lifecycle-guard", "what": str(e)[:80]}, case, {})
            except Exception as e:  # noqa: BLE001
                ctx.violation({"api": name, "symptom": "raises", "type": type(e).__name__, "lifecycle": "variant"}, case,
                              {"error": str(e)[-300:]})
    ctx.sample({"lifecycle": {"modules": list(names), "configs_per_module": len(life_configs()),
                              "variants": ["deepcopy", "pickle", "torch.save", "used+deepcopy", "eval+deepcopy",
                                           "state_dict", "state_dict-after-use", "double-float"]}})
