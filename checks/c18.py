"""C18 - MVN statistics over every accumulation history, delta features, discounted returns (E1/E3)."""

import itertools
import math
import os
import random
import shutil

import torch

import pydrobert.torch.functional as F
import pydrobert.torch.modules as M
from pydrobert.torch import config

from mc.runner import Ctx
from mc.oracles import feats as O
from mc import guards as GD

PROP = "C18"
LEVEL = "exploration"
RULE = (
    "MVN: a pool of 4 (thorough: 5) chunks of 1,2,3,2(,1) frames with seed-valued coefficients on the "
    "dyadic grid k/8 (all sums exact in float64); for EVERY non-empty subset of the pool, EVERY set "
    "partition of the subset into accumulate() calls (tensors of rank 2 and 3 with the feature axis at every position, and rank 1: a single frame handed over as (F,) between (m,F) blocks) x EVERY order of the calls (ordered set partitions: "
    "1,3,13,75(,541) per subset size; 149 (1031) histories), x bessel in {False,True} x feature axis at "
    "every position of 2-D and 3-D tensors in positive and negative spelling x F in {1,3} (thorough 1..3) "
    "x float32/float64; a block of chunks is one tensor whose non-feature axes hold the pooled frames. "
    "For the full pool every history is run again with store(delete_stats=False) after every call "
    "(prefix statistics) and with the module re-used after store(). Without stored statistics (fresh "
    "module, module that only accumulated, functional) the input's own statistics. The command "
    "compute-mvn-stats-for-torch-feat-data-dir on every subset written as files under every file order "
    "(ids chosen so that the sorted listing is that order) x bessel x --dim, and on the full pool with "
    "--id2gid for every set partition into groups. Deltas: order 0..2 x width 1..2 (thorough 0..3 x 1..3) "
    "x {replicate,constant(value 0, 1.5),reflect,circular} x every (dim,time_dim,concatenate) spelling "
    "for 2-D (T,2) and 3-D (T,2,3)-shaped inputs (time axis anywhere) x T in 1..5 (1..7) x "
    "functional/module x float64/float32. Returns: every r in {-1,0,1,2}^T, T in 0..4, N=1 and every "
    "ordered pair of sequences for N=2, gamma in {0,1/2,1,2}, both layouts, functional and module. "
    "Guard passes (mc/guards.py): (1) every tensor handed to accumulate / forward / mean_var_norm / "
    "feat_deltas / FeatureDeltas / time_distributed_return / TimeDistributedReturn is compared with a "
    "clone taken before the call, in every case of every pass; (2) kept results: statistics of every "
    "prefix store, the normalised output, deltas and returns must be unchanged after a later call of the "
    "same function / module object on other data; (3) layouts: every history of the full pool, deltas "
    "(order 2, width 1..2, 4 modes, every dim spelling, T in {1,3,5}) and every reward tensor with T<=3 "
    "(N=1: T<=4) again as offset view and as transposed-dense view, float32 and float64; (4) object "
    "histories: ONE FeatureDeltas object per configuration ((order,width) in {(0,1),(1,1),(1,2),(2,1),(2,2)} "
    "x every dim spelling of rank 2 and 3) called with T, data and (where legal) rank changing, train/eval "
    "and float/double switched, == oracle and == fresh object; ONE MeanVarianceNormalization object "
    "accumulating rank-2 and rank-3 blocks mixed, forward on both ranks, a second round; ONE "
    "TimeDistributedReturn object per (gamma, batch_first) over T in 1..5, N in 1..3; the command runs hundreds of times in one process "
    "with changing flags (cli pass); (6) one larger instance each: 600 frames x 13 coefficients in 7 "
    "blocks, deltas of a 300 x 13 input (orders 2-3, widths 2-3), returns for T=40, N=20. "
    "Partially specified statistics: for every input subset x every OTHER subset with non-zero deviation as "
    "the source of supplied statistics: none / mean only / std only / both, through the module constructor "
    "and the functional's arguments (supplied as float64 and float32), a missing statistic being the "
    "input's own; own std => unit variance, own mean => zero mean; the same through SpectDataSet(do_mvn, "
    "feat_mean, feat_std) on the pool as utterances, delta_order 0 and 2. Call variants (modes pass): "
    "torch.jit.script and torch.jit.trace of MeanVarianceNormalization (all 4 statistic combinations; "
    "scripted accumulate/store), FeatureDeltas (5 (order,width) x 4 modes x 2 ranks, traced on one T and "
    "run on T in {1,2,4,5}) and TimeDistributedReturn (4 gammas x 2 layouts); torch.inference_mode; "
    "float64 as the default dtype; inputs requiring grad followed by backward; one tensor object used as "
    "mean and std, and handed to accumulate() twice. "
    "Long instances (horizon / frame axis across plausible blocking thresholds): returns for T in "
    "{1025, 2049, 3000, 4097}, N=3, gamma in {0.9, 0.99, 1.002, 0.5, 2} (float64) and {0.99, 1.002, 0.5, 0.9, 2} (float32) - "
    "including factors whose T-th power under- or overflows the dtype; every step with a representable return is judged - plus "
    "gamma 0 and 1, both layouts, functional and module, against the backward "
    "recursion in float64; MVN with 70,001 frames in one accumulate() between 1,500 small calls; deltas of "
    "a 5000-step sequence, 4 pad modes. "
    "(14) lifecycle pass: every guards.lifecycle_variants object of MeanVarianceNormalization (4 dim/rank "
    "layouts x none/mean/std/both given x eps in {default, 0.0, 0.5}; state_dict-into-other = a module built "
    "with OTHER statistics and another eps that was used and then loads the state dict), FeatureDeltas (orders "
    "0..2, every fifth dim spelling incl. 0 / False / value 0.0, into-other = other dim/time_dim/concatenate/"
    "pad mode/value), TimeDistributedReturn (8 configurations incl. gamma 0.0) and Sequential(MVN, "
    "FeatureDeltas) on 2-3 inputs each == the definition for a fresh object; deepcopy / pickle / torch.save / "
    "state_dict in the middle of an accumulation, then accumulate on and store. Histories: one object per "
    "configuration; reassigning `__constants__` attributes (dim, eps, gamma, batch_first, pad_mode, ...) on a "
    "live object is executed and counted (constants_reassigned_honoured/ignored), never judged. "
    "All cases distinct by construction (cartesian products of duplicate-free generators). Non-trivial: "
    "MVN history with >=2 chunks; delta case with order>=1; return case with T>=2 and gamma != 0."
)
ASSUMPTIONS = [
    "small scope: <=5 chunks, <=9 frames, F<=3, ranks 2-3; delta inputs up to 7x2x3; returns T<=4, N<=2",
    "MVN statistics compared at 1e-9 (float64 buffers, exact sums); normalised data at 1e-9 (float64 "
    "input) / 2e-5 (float32 input); deltas 1e-6 (float64 input; the library's filter coefficients are "
    "float32 whatever the input type - a precision matter, not counted as a violation) / 2e-5; returns 1e-6",
    "'unit variance' is read with the same estimator as the stored deviation (population variance for "
    "bessel=False, sample variance for bessel=True); coefficients that are constant over the pooled data "
    "are exempt from the unit-variance clause (stored deviation 0, clamped by eps)",
    "store(bessel=True) after one frame raises as documented and is not a violation",
    "delta oracle: input extended ONCE by order*width samples with the chosen mode, recursion applied "
    "on the extended sequence; reflect/circular only where the padding exists (pad<T / pad<=T); non-zero "
    "fill value only with constant mode",
    "the command is run in-process with --num-workers 0; DataLoader worker processes are trusted",
    "FeatureDeltas.order / .width are not reassigned on a live object (the filter buffer is built for them "
    "at construction; the functional asserts the match) - only dim, time_dim, concatenate, pad_mode, value",
    "larger returns instance: gamma=2 in float64 only (2^39-weighted sums cancel catastrophically in "
    "float32), gamma=1/2 at 1e-5; T stays below the underflow of gamma^T (DESIGN sec. 4)",
    "long-horizon returns: gamma**T must stay a normal number of the tensor's dtype (the implementation "
    "divides powers of gamma; under-/overflow is excluded by DESIGN sec. 4), hence gamma=0.9 only in float64 and no "
    "gamma=1/2 or 2 there; tolerance relative to sum_t' gamma^(t'-t)|r_t'|: 1e-9 (float64), 5e-4 (float32, "
    "about 2*T*2^-24); a missing factor gamma at a block boundary is an error of |1-gamma| >= 2e-3 of the carry",
    "guard class 5 (don't-care regions) does not apply to C18: no input position is declared ignored",
    "partial statistics: a supplied deviation of 0, and a constant coefficient combined with a foreign mean, "
    "are excluded ((x-mean)/eps with eps=1e-38 overflows float32)",
    "TorchScript variants: only torch.jit.script / torch.jit.trace of the modules as the repository tests "
    "build them (PYTORCH_JIT=1 import-time scripting of the functionals is not explored)",
    "TorchScript-compiled and CUDA variants not explored",
]
BUDGET_S = {"quick": 240, "thorough": 2400}

EPS = config.TINY
GAMMAS = (0.0, 0.5, 1.0, 2.0)
REWARDS = (-1.0, 0.0, 1.0, 2.0)
PAD_MODES = ("replicate", "constant", "reflect", "circular")
DTYPES = {"float32": torch.float32, "float64": torch.float64}


def _chunk_frames(tier):
    return (1, 2, 3, 2) if tier == "quick" else (1, 2, 3, 2, 1)


def _close(a, b, tol):
    if isinstance(a, float) and (math.isnan(a) or math.isnan(b)):
        return False
    return abs(a - b) <= tol * (1.0 + abs(b))


# =================================================================== guards (mc/guards.py)
LAYOUTS = ("offset-view", "transposed-dense")


def _relayout(x, name):
    """Same values in another memory layout; None if the layout does not exist for x."""
    if name in (None, "as-is"):
        return x
    for n, t in GD.layouts(x):
        if n == name:
            return t
    return None


def _args_unchanged(ctx, api, case, pairs):
    """pairs: (tensor handed to the library, clone taken before the call)."""
    for x, xc in pairs:
        if x.shape != xc.shape or not torch.equal(x, xc):
            ctx.violation({"api": api, "symptom": "argument-modified"}, case,
                          {"before": xc.tolist(), "after": x.tolist()})
            return False
    return True


def _kept_unchanged(ctx, api, case, kept, what):
    try:
        kept.check()
        return True
    except GD.GuardViolation as e:
        ctx.violation({"api": api, "symptom": "earlier-result-changed-by-later-call", "what": what}, case,
                      {"error": str(e)})
        return False


# ======================================================================== MVN: data / layout
def _chunks(tier, seed, nfeat):
    """{chunk id: list of frames}; values k/8 with |k| <= 24; don't-care filler from the seed."""
    rng = random.Random(f"c18-mvn-{seed}-{nfeat}")
    out = {}
    for cid, n in enumerate(_chunk_frames(tier)):
        out[cid] = [[rng.randint(-24, 24) / 8.0 for _ in range(nfeat)] for _ in range(n)]
    return out


def _factor(m):
    a = int(math.isqrt(m))
    while m % a:
        a -= 1
    return a, m // a


def _layout(frames, rank, pos, dtype):
    """frames (m x F) -> tensor of the requested rank with the feature axis at index pos."""
    m, nfeat = len(frames), len(frames[0])
    x = torch.tensor(frames, dtype=dtype)
    if rank == 1:  # a single frame is handed over as a 1-D tensor (F,), several frames as (m, F); dim is -1
        return x[0] if m == 1 else x
    if rank == 3:
        a, b = _factor(m)
        x = x.view(a, b, nfeat)
    return x.movedim(-1, pos)


def _unlayout(y, pos, nfeat):
    return y.movedim(pos, -1).reshape(-1, nfeat).tolist()


def _dim_spellings(rank):
    out = []
    for pos in range(rank):
        out.append((pos, pos))
        out.append((pos, pos - rank))
    return out


def _frames_of(chunks, ids):
    return [fr for c in ids for fr in chunks[c]]


# ======================================================================== MVN: single cases
def _cmp_stats(ctx, api, case, mean, std, frames, bessel, extra_sig=None):
    emean, estd, _ = O.pooled_stats(frames, bessel)
    ok = True
    try:
        gm, gs = mean.tolist(), std.tolist()
        if len(gm) != len(emean) or len(gs) != len(estd):
            raise AssertionError(f"stat shapes {tuple(mean.shape)}, {tuple(std.shape)}")
        bad = [f for f in range(len(emean))
               if not _close(gm[f], emean[f], 1e-9) or not _close(gs[f], estd[f], 1e-9)]
    except Exception as e:  # None buffers, wrong types
        gm, gs, bad = repr(mean), repr(std), [str(e)]
    if bad:
        ok = False
        sig = {"api": api, "symptom": "wrong-statistics", "bessel": bessel}
        sig.update(extra_sig or {})
        ctx.violation(sig, case, {"expected_mean": emean, "expected_std": estd,
                                  "observed_mean": gm, "observed_std": gs, "frames": len(frames)})
    else:
        ctx.outcome([round(v * 4096) for v in emean + estd])
    return ok


def _check_normalised(ctx, api, case, y_frames, frames, mean, std, zero, bessel, tol, own):
    """elementwise definition and (mean 0, variance 1) of the normalised pooled data."""
    exp = O.normalise(frames, mean, std, EPS)
    bad = [(i, f) for i in range(len(frames)) for f in range(len(frames[0]))
           if not _close(y_frames[i][f], exp[i][f], tol)]
    if bad:
        ctx.violation({"api": api, "symptom": "normalised-values-differ-from-definition",
                       "own_statistics": own, "bessel": bessel},
                      case, {"expected": exp, "observed": y_frames, "bad": bad[:5]})
        return False
    mom = O.moments(y_frames, bessel)
    n = len(frames)
    for f, (m, v) in enumerate(mom):
        if not _close(m, 0.0, 10 * tol):
            ctx.violation({"api": api, "symptom": "normalised-mean-not-zero", "own_statistics": own,
                           "bessel": bessel}, case, {"coefficient": f, "mean": m})
            return False
        if zero[f] or (bessel and n < 2):
            ctx.count("constant-coefficient (unit variance not demanded)")
            continue
        if not _close(v, 1.0, 10 * tol):
            ctx.violation({"api": api, "symptom": "normalised-variance-not-one", "own_statistics": own,
                           "bessel": bessel}, case, {"coefficient": f, "variance": v})
            return False
    return True


def _mvn_history(ctx, chunks, history, rank, pos, dim, bessel, dtname, mode, nontrivial=None, layout="as-is"):
    """One accumulation history on a fresh module.  mode: 'final' (one store at the end),
    'prefix' (store(delete_stats=False) after every call), 'reuse' (a second round on the same
    module after store())."""
    dtype = DTYPES[dtname]
    nfeat = len(next(iter(chunks.values()))[0])
    ids = [c for b in history for c in b]
    case = {"kind": "mvn", "chunks": {str(k): v for k, v in chunks.items()}, "history": history,
            "rank": rank, "pos": pos, "dim": dim, "bessel": bessel, "dtype": dtname, "mode": mode,
            "layout": layout}
    ctx.case(1, (1 if len(ids) > 1 else 0) if nontrivial is None else nontrivial)
    tol = 1e-9 if dtname == "float64" else 2e-5
    api = "MeanVarianceNormalization"

    def tensor(frames):
        x = _relayout(_layout(frames, rank, pos, dtype), layout)
        return _layout(frames, rank, pos, dtype) if x is None else x

    def accumulate(mvn, frames):
        x = tensor(frames)
        xc = x.clone()
        mvn.accumulate(x)
        return _args_unchanged(ctx, api + ".accumulate", case, [(x, xc)])

    def store(mvn, nframes, **kw):
        """True if stored, False if a documented raise, None if a violation was recorded."""
        try:
            mvn.store(bessel=bessel, **kw)
            return True
        except Exception as e:
            if bessel and nframes < 2 and isinstance(e, RuntimeError):
                ctx.count("documented raise: bessel with one frame")
                return False
            ctx.violation({"api": api + ".store", "symptom": "raises", "type": type(e).__name__,
                           "single_frame": nframes == 1, "bessel": bessel},
                          case, {"error": str(e)[-300:], "frames": nframes})
            return None

    try:
        mvn = M.MeanVarianceNormalization(dim)
        seen = []
        kept = []
        for block in history:
            if not accumulate(mvn, _frames_of(chunks, block)):
                return
            seen.extend(block)
            if mode == "prefix":
                fr = _frames_of(chunks, seen)
                st = store(mvn, len(fr), delete_stats=False)
                if st is None:
                    return
                if st and not _cmp_stats(ctx, api, case, mvn.mean, mvn.std, fr, bessel,
                                         {"after": "prefix-store"}):
                    return
                if st:
                    kept.append(GD.Kept(mvn.mean, mvn.std))  # must survive later accumulate/store calls
        frames = _frames_of(chunks, ids)
        st = store(mvn, len(frames))
        if not st:
            return
        if not _cmp_stats(ctx, api, case, mvn.mean, mvn.std, frames, bessel):
            return
        for kp in kept:
            if not _kept_unchanged(ctx, api + ".store", case, kp, "stored statistics of an earlier store()"):
                return
        if mvn.count is not None or mvn.sum is not None or mvn.sumsq is not None:
            ctx.violation({"api": api + ".store", "symptom": "statistics-not-deleted"}, case, {})
            return
        # normalise the pooled data (canonical chunk order) with the stored statistics
        pooled = _frames_of(chunks, sorted(ids))
        emean, estd, zero = O.pooled_stats(pooled, bessel)
        xin = tensor(pooled)
        xc = xin.clone()
        stats = GD.Kept(mvn.mean, mvn.std)
        y = mvn(xin)
        if not _args_unchanged(ctx, api, case, [(xin, xc)]):
            return
        if not _kept_unchanged(ctx, api, case, stats, "stored statistics after forward"):
            return
        if y.dtype != dtype or tuple(y.shape) != tuple(_layout(pooled, rank, pos, dtype).shape):
            ctx.violation({"api": api, "symptom": "wrong-shape-or-dtype"}, case,
                          {"shape": tuple(y.shape), "dtype": str(y.dtype)})
            return
        if not _check_normalised(ctx, api, case, _unlayout(y, pos, nfeat), pooled, emean, estd, zero,
                                 bessel, tol, False):
            return
        if mode == "reuse":
            # the module starts from scratch after store(): second round with the first block only;
            # the result kept from the first round must survive the later calls on the same object
            ykept = GD.Kept(y)
            block = history[0]
            fr = _frames_of(chunks, block)
            if not accumulate(mvn, fr):
                return
            st = store(mvn, len(fr))
            if st:
                _cmp_stats(ctx, api, case, mvn.mean, mvn.std, fr, bessel, {"after": "reuse"})
                mvn(tensor(fr) + 1.0)
            _kept_unchanged(ctx, api, case, ykept, "normalised output of an earlier call")
    except Exception as e:
        ctx.violation({"api": api, "symptom": "raises", "type": type(e).__name__, "bessel": bessel},
                      case, {"error": str(e)[-300:]})


def _mvn_own(ctx, frames, rank, pos, dim, dtname, how, layout="as-is"):
    """No stored statistics => the input's own (population) statistics."""
    dtype = DTYPES[dtname]
    nfeat = len(frames[0])
    case = {"kind": "own", "frames": frames, "rank": rank, "pos": pos, "dim": dim,
            "dtype": dtname, "how": how, "layout": layout}
    ctx.case(1, 1 if len(frames) > 1 else 0)
    tol = 1e-9 if dtname == "float64" else 2e-5
    api = "mean_var_norm" if how == "functional" else "MeanVarianceNormalization"
    try:
        x = _relayout(_layout(frames, rank, pos, dtype), layout)
        if x is None:
            x = _layout(frames, rank, pos, dtype)
        xc = x.clone()
        if how == "functional":
            y = F.mean_var_norm(x, dim)
        else:
            mvn = M.MeanVarianceNormalization(dim)
            if how == "accumulated-not-stored":
                mvn.accumulate(x + 1.0)
                mvn.accumulate(x)
            y = mvn(x)
        if not _args_unchanged(ctx, api, case, [(x, xc)]):
            return
        mean, std, zero = O.pooled_stats(frames, False)
        _check_normalised(ctx, api, case, _unlayout(y, pos, nfeat), frames, mean, std, zero, False, tol, True)
    except Exception as e:
        ctx.violation({"api": api, "symptom": "raises", "type": type(e).__name__, "own_statistics": True},
                      case, {"error": str(e)[-300:]})


def _run_mvn_shard(ctx, spec, tier, seed):
    rank, pos, dim, nfeat, dtname = spec["rank"], spec["pos"], spec["dim"], spec["F"], spec["dtype"]
    chunks = _chunks(tier, seed, nfeat)
    ids = sorted(chunks)
    first = True
    for k in range(1, len(ids) + 1):
        for subset in itertools.combinations(ids, k):
            sub = {c: chunks[c] for c in subset}
            frames = _frames_of(chunks, subset)
            for how in ("fresh-module", "functional", "accumulated-not-stored"):
                _mvn_own(ctx, frames, rank, pos, dim, dtname, how)
            for hist in O.histories(list(subset)):
                for bessel in (False, True):
                    _mvn_history(ctx, sub, hist, rank, pos, dim, bessel, dtname, "final")
                    if k == len(ids):
                        # further passes over the same histories: counted, but not as new
                        # distinct cases
                        _mvn_history(ctx, sub, hist, rank, pos, dim, bessel, dtname, "prefix", 0)
                        _mvn_history(ctx, sub, hist, rank, pos, dim, bessel, dtname, "reuse", 0)
                        if first:
                            first = False
                            ctx.sample({"part": "mvn", "history": hist, "rank": rank, "dim": dim,
                                        "bessel": bessel, "chunk_frames": [len(chunks[c]) for c in ids]})
    _run_partial(ctx, chunks, ids[:4], rank, pos, dim, dtname)
    ctx.count("mvn histories per layout", sum(1 for k in range(1, len(ids) + 1)
                                              for s in itertools.combinations(ids, k)
                                              for _ in O.histories(list(s))))


# ======================================================================== MVN: command line
def _scratch():
    d = f"/dev/shm/verif-{os.getpid()}/c18"
    os.makedirs(d, exist_ok=True)
    return d


def _cli_case(ctx, chunks, order, groups, rank, pos, dim, bessel):
    """order: chunk ids in the order the sorted listing must present them; groups: None or a
    list of blocks (set partition) -> --id2gid."""
    import pydrobert.torch.command_line as CL

    api = "compute-mvn-stats-for-torch-feat-data-dir"
    case = {"kind": "cli", "chunks": {str(k): v for k, v in chunks.items()}, "order": order,
            "groups": groups, "rank": rank, "pos": pos, "dim": dim, "bessel": bessel}
    ctx.case(1, 1 if len(order) > 1 else 0)
    root = _scratch()
    feat = os.path.join(root, "feat")
    shutil.rmtree(feat, ignore_errors=True)
    os.makedirs(feat)
    out = os.path.join(root, "out.pt")
    if os.path.exists(out):
        os.remove(out)
    names = {}
    for i, c in enumerate(order):
        names[c] = f"utt{i:02d}-c{c}"
        torch.save(_layout(chunks[c], rank, pos, torch.float32).contiguous(),
                   os.path.join(feat, names[c] + ".pt"))
    args = [feat, out, "--num-workers", "0", "--dim", str(dim)]
    if bessel:
        args.append("--bessel")
    expected = {}
    if groups is not None:
        g2 = os.path.join(root, "id2gid")
        with open(g2, "w") as f:
            for gi, block in enumerate(groups):
                for c in block:
                    f.write(f"{names[c]} g{gi}\n")
        args += ["--id2gid", g2]
        for gi, block in enumerate(groups):
            expected[f"g{gi}"] = _frames_of(chunks, block)
    else:
        expected[None] = _frames_of(chunks, order)
    smallest = min(len(v) for v in expected.values())
    try:
        rc = CL.compute_mvn_stats_for_torch_feat_data_dir(args)
        if rc not in (None, 0):
            raise RuntimeError(f"return code {rc}")
        got = torch.load(out)
    except BaseException as e:
        if isinstance(e, KeyboardInterrupt):
            raise
        if bessel and smallest < 2 and isinstance(e, RuntimeError):
            ctx.count("documented raise: bessel with one frame")
            return
        ctx.violation({"api": api, "symptom": "raises", "type": type(e).__name__,
                       "single_frame": smallest == 1, "bessel": bessel, "grouped": groups is not None},
                      case, {"error": str(e)[-300:]})
        return
    if bessel and smallest < 2:
        # Bessel's correction of a single frame: store() documents a raise; a command that answers anyway
        # has no defined expectation here - counted, the other cases judge the statistics
        ctx.count("no raise for bessel with one frame (not judged)")
        return
    if groups is None:
        got = {None: got}
    if not isinstance(got, dict) or set(got) != set(expected):
        ctx.violation({"api": api, "symptom": "wrong-output-structure", "grouped": groups is not None},
                      case, {"keys": sorted(map(str, got)) if isinstance(got, dict) else repr(got)})
        return
    for gid, frames in expected.items():
        st = got[gid]
        if not isinstance(st, dict) or set(st) != {"mean", "std"}:
            ctx.violation({"api": api, "symptom": "wrong-output-structure", "grouped": groups is not None},
                          case, {"entry": repr(st)[:200]})
            return
        if not _cmp_stats(ctx, api, case, st["mean"], st["std"], frames, bessel,
                          {"grouped": groups is not None}):
            return


def _run_cli_shard(ctx, spec, tier, seed):
    rank, pos, dim = spec["rank"], spec["pos"], spec["dim"]
    chunks = _chunks(tier, seed, 2)
    ids = sorted(chunks)[:4]
    try:
        for bessel in (False, True):
            for k in range(1, len(ids) + 1):
                for subset in itertools.combinations(ids, k):
                    for order in itertools.permutations(subset):
                        _cli_case(ctx, chunks, list(order), None, rank, pos, dim, bessel)
            for part in O.set_partitions(ids):
                _cli_case(ctx, chunks, ids, sorted(part), rank, pos, dim, bessel)
        ctx.sample({"part": "cli", "files": [f"utt{i:02d}-c{c}.pt" for i, c in enumerate(ids)],
                    "dim": dim, "groups": "every set partition via --id2gid"})
    finally:
        shutil.rmtree(f"/dev/shm/verif-{os.getpid()}", ignore_errors=True)


# ============================================================================== deltas
def _delta_shape(rank, T, tpos):
    others = [2] if rank == 2 else [2, 3]
    return tuple(others[:tpos] + [T] + others[tpos:])


def _delta_values(shape, seed):
    rng = random.Random(f"c18-delta-{seed}-{shape}")
    n = 1
    for s in shape:
        n *= s
    return [rng.randint(-16, 16) / 4.0 for _ in range(n)]


def _delta_case(ctx, flat, shape, dim, time_dim, concatenate, order, width, mode, value, dtname, api,
                layout="as-is", guard=False):
    """guard=True: additionally keep the result, call the same function / module object again on
    other data and demand that the kept result did not change."""
    case = {"kind": "delta", "flat": flat, "shape": list(shape), "dim": dim, "time_dim": time_dim,
            "concatenate": concatenate, "order": order, "width": width, "mode": mode, "value": value,
            "dtype": dtname, "api": api, "layout": layout, "guard": guard}
    D = len(shape)
    T = shape[time_dim % D]
    if not O.pad_admitted(T, order * width, mode):
        ctx.count("pad not admitted by torch (skipped)")
        return
    ctx.case(1, 1 if order >= 1 else 0)
    # the library builds the regression filters in float32 and casts them to the input's
    # dtype, so float64 inputs see coefficients like 1/10 at float32 precision
    tol = 1e-6 if dtname == "float64" else 2e-5
    x0 = torch.tensor(flat, dtype=DTYPES[dtname]).view(shape)
    x = _relayout(x0, layout)
    if x is None:
        ctx.count("layout does not exist for this shape (skipped)")
        return
    xc = x.clone()
    sig_base = {"api": "feat_deltas", "concatenate": concatenate, "mode": mode}
    if layout != "as-is":
        sig_base["layout"] = layout
    try:
        if api == "functional":
            fn = lambda t: F.feat_deltas(t, dim, time_dim, concatenate, order, width, mode, value)  # noqa: E731
        else:
            # a module's buffers follow the module's dtype, as for any torch layer
            fn = M.FeatureDeltas(dim, time_dim, concatenate, order, width, mode, value).to(x.dtype)
        y = fn(x)
        if not _args_unchanged(ctx, "feat_deltas", case, [(x, xc)]):
            return
        if guard:
            kept = GD.Kept(y)
            fn(x0.flip(0) * 2.0 + 1.0)
            if not _kept_unchanged(ctx, "feat_deltas", case, kept, "deltas of an earlier call"):
                return
    except Exception as e:
        ctx.violation(dict(sig_base, symptom="raises", type=type(e).__name__), case,
                      {"error": str(e)[-300:]})
        return
    exp, eshape = O.deltas(O.to_dict(x0.tolist(), shape), shape, dim, time_dim, concatenate, order,
                           width, mode, value)
    if tuple(y.shape) != tuple(eshape):
        ctx.violation(dict(sig_base, symptom="wrong-shape"), case,
                      {"expected": eshape, "observed": tuple(y.shape)})
        return
    got = y.tolist()
    bad = [idx for idx in O.indices(eshape) if not _close(O.nested_get(got, idx), exp[idx], tol)]
    if bad:
        # classify: which orders are wrong, and is it only the layout?
        exp_sorted = sorted(exp.values())
        got_sorted = sorted(O.nested_get(got, idx) for idx in O.indices(eshape))
        layout_only = all(_close(a, b, tol) for a, b in zip(got_sorted, exp_sorted))
        ctx.violation(dict(sig_base, symptom="wrong-layout" if layout_only else "wrong-values",
                           order=order), case,
                      {"bad": bad[:6], "expected": [exp[i] for i in bad[:6]],
                       "observed": [O.nested_get(got, i) for i in bad[:6]]})
    else:
        ctx.outcome([round(v * 1024) for v in list(exp.values())[:12]])


def _delta_dims(rank):
    out = []
    for time_dim in range(-rank, rank):
        for concatenate in (True, False):
            R = rank if concatenate else rank + 1
            for dim in range(-R, R):
                out.append((dim, time_dim, concatenate))
    return out


def _run_delta_shard(ctx, spec, tier, seed):
    order, width, mode = spec["order"], spec["width"], spec["mode"]
    Tmax = 5 if tier == "quick" else 7
    values = (0.0, 1.5) if mode == "constant" else (0.0,)
    n = 0
    for rank in (2, 3):
        for dim, time_dim, concatenate in _delta_dims(rank):
            tpos = time_dim % rank
            for T in range(1, Tmax + 1):
                shape = _delta_shape(rank, T, tpos)
                flat = _delta_values(shape, seed)
                for value in values:
                    for dtname in ("float64", "float32"):
                        # functional and module alternate; both see every configuration in
                        # the thorough tier
                        apis = ("functional", "module") if tier == "thorough" else (
                            ("functional",) if ((n // 2 + n) % 2 == 0) else ("module",))
                        n += 1
                        for api in apis:
                            _delta_case(ctx, flat, shape, dim, time_dim, concatenate, order, width,
                                        mode, value, dtname, api)
    ctx.sample({"part": "deltas", "order": order, "width": width, "mode": mode,
                "(dim,time_dim,concatenate) spellings": len(_delta_dims(2)) + len(_delta_dims(3))})


# ============================================================================= returns
def _return_batch(ctx, cols, gamma, batch_first, dtname, api, layout="as-is", guard=False, tol=1e-6):
    """cols: list of N reward sequences (each length T)."""
    N = len(cols)
    T = len(cols[0])
    case = {"kind": "return", "cols": cols, "gamma": gamma, "batch_first": batch_first,
            "dtype": dtname, "api": api, "layout": layout, "guard": guard, "tol": tol}
    ctx.case(1, 1 if (T >= 2 and gamma != 0) else 0)
    r = torch.tensor(cols, dtype=DTYPES[dtname]).view(N, T)
    if not batch_first:
        r = r.t()
    r0 = r
    r = _relayout(r, layout)
    if r is None:
        ctx.count("layout does not exist for this shape (skipped)")
        return
    rc = r.clone()
    sig = {"api": "time_distributed_return", "batch_first": batch_first, "gamma": gamma}
    if layout != "as-is":
        sig["layout"] = layout
    try:
        if api == "functional":
            fn = lambda t: F.time_distributed_return(t, gamma, batch_first)  # noqa: E731
        else:
            fn = M.TimeDistributedReturn(gamma, batch_first)
        R = fn(r)
        if not _args_unchanged(ctx, "time_distributed_return", case, [(r, rc)]):
            return
        if guard:
            kept = GD.Kept(R)
            fn(r0 * 3.0 - 1.0)
            if not _kept_unchanged(ctx, "time_distributed_return", case, kept, "returns of an earlier call"):
                return
    except Exception as e:
        ctx.violation(dict(sig, symptom="raises", type=type(e).__name__, empty=T == 0), case,
                      {"error": str(e)[-300:]})
        return
    if tuple(R.shape) != tuple(r.shape):
        ctx.violation(dict(sig, symptom="wrong-shape"), case, {"observed": tuple(R.shape)})
        return
    got = (R if batch_first else R.t()).tolist()
    exp = [O.returns(c, gamma) for c in cols]
    for n in range(N):
        for t in range(T):
            if not _close(got[n][t], exp[n][t], tol):
                ctx.violation(dict(sig, symptom="wrong-return"), case, {"expected": exp, "observed": got})
                return
    if N == 1:
        ctx.outcome([round(v * 16) for v in exp[0]] + [T])


def _run_return_shard(ctx, spec, tier, seed):
    T, N = spec["T"], spec["N"]
    seqs = [list(s) for s in itertools.product(REWARDS, repeat=T)]
    lo, hi = spec.get("lo", 0), spec.get("hi", len(seqs))
    dtnames = ("float32",) if tier == "quick" else ("float32", "float64")
    n = 0
    for i in range(lo, hi):
        seconds = [None] if N == 1 else range(len(seqs))
        for j in seconds:
            cols = [seqs[i]] if j is None else [seqs[i], seqs[j]]
            for gamma in GAMMAS:
                for batch_first in (False, True):
                    for dtname in dtnames:
                        n += 1
                        apis = ("functional", "module") if (N == 1 or tier == "thorough") else (
                            ("functional",) if n % 2 else ("module",))
                        for api in apis:
                            _return_batch(ctx, cols, gamma, batch_first, dtname, api)
    if lo == 0:
        ctx.sample({"part": "returns", "T": T, "N": N, "sequences": len(seqs), "gammas": GAMMAS})


# ================================================================ guard passes (mc/guards.py)
def _run_guard_mvn(ctx, spec, tier, seed):
    """memory layouts for MVN inputs: every history of the full pool again with the block tensors
    handed in as offset views / transposed-dense views (reduced: F=2, float32, bessel False)."""
    rank, pos, dim = spec["rank"], spec["pos"], spec["dim"]
    chunks = _chunks("quick", seed, 2)
    ids = sorted(chunks)
    for layout in LAYOUTS:
        for how in ("fresh-module", "functional"):
            _mvn_own(ctx, _frames_of(chunks, ids), rank, pos, dim, "float32", how, layout)
        for hist in O.histories(ids):
            _mvn_history(ctx, chunks, hist, rank, pos, dim, False, "float32", "prefix", None, layout)
    ctx.sample({"part": "guards-mvn", "layouts": LAYOUTS, "rank": rank, "dim": dim})


def _run_guard_deltas(ctx, spec, tier, seed):
    """layouts + kept results for deltas: order 2, the shard's width and pad mode, every
    (dim,time_dim,concatenate) spelling, T in {1,3,5}, both dtypes, functional and module."""
    width, mode = spec["width"], spec["mode"]
    for rank in (2, 3):
        for dim, time_dim, concatenate in _delta_dims(rank):
            for T in (1, 3, 5):
                shape = _delta_shape(rank, T, time_dim % rank)
                flat = _delta_values(shape, seed)
                for layout in LAYOUTS:
                    for dtname in ("float64", "float32"):
                        for api in ("functional", "module"):
                            _delta_case(ctx, flat, shape, dim, time_dim, concatenate, 2, width, mode, 0.0,
                                        dtname, api, layout, True)
    ctx.sample({"part": "guards-deltas", "width": width, "mode": mode, "layouts": LAYOUTS})


def _run_guard_returns(ctx, spec, tier, seed):
    """layouts + kept results for returns: every r, T<=3, N<=2 (N=1: T<=4)."""
    N = spec["N"]
    for T in range(1, 5 if N == 1 else 4):
        seqs = [list(s) for s in itertools.product(REWARDS, repeat=T)]
        for i in range(len(seqs)):
            for j in ([None] if N == 1 else range(len(seqs))):
                cols = [seqs[i]] if j is None else [seqs[i], seqs[j]]
                for gamma in GAMMAS:
                    for batch_first in (False, True):
                        for li, layout in enumerate(LAYOUTS):
                            api = "functional" if (i + (j or 0) + li) % 2 == 0 else "module"
                            dtname = "float32" if (i + li) % 2 == 0 else "float64"
                            _return_batch(ctx, cols, gamma, batch_first, dtname, api, layout, True)
    ctx.sample({"part": "guards-returns", "N": N, "layouts": LAYOUTS})


def _count_reassigned(ctx, honoured):
    """Reassigning a `__constants__` attribute of a live module is executed and counted, never judged
    (CHECK_AUTHORING.md, 'What a history may NOT demand')."""
    ctx.count("constants_reassigned_honoured" if honoured else "constants_reassigned_ignored")


def _history_deltas(ctx, seed, order, width):
    """ONE FeatureDeltas object PER CONFIGURATION (every (dim, time_dim, concatenate) spelling of rank 2 and
    3, pad mode rotating): it is called again and again with T, the data, the rank (where the spelling is
    legal for both) changing, train/eval and float/double switched; every result must equal the oracle's
    and a fresh object's.  New configurations come from newly constructed objects; one reassignment of the
    constants per object is executed at the end and only counted."""
    step = 0
    for rank in (2, 3):
        for dim, time_dim, concatenate in _delta_dims(rank):
            step += 1
            mode = PAD_MODES[step % 4]
            value = 1.5 if (mode == "constant" and step % 8 < 4) else 0.0
            mod = M.FeatureDeltas(dim, time_dim, concatenate, order, width, mode, value)
            case = {"kind": "history-deltas", "seed": seed, "order": order, "width": width, "step": step}
            sig = {"api": "FeatureDeltas", "history": "one object per configuration, inputs / mode switches vary"}
            calls = 0
            for call, T in enumerate((3, 1, 5, 2, 4, 5)):
                if not O.pad_admitted(T, order * width, mode):
                    continue
                # the same spelling on a rank-3 input when it is legal there too (rank-2 objects only)
                r = 3 if (rank == 2 and call % 2 and -2 <= time_dim < 2 and
                          -(2 if concatenate else 3) <= dim < (2 if concatenate else 3)) else rank
                dtname = "float64" if (call // 2) % 2 else "float32"
                shape = _delta_shape(r, T, time_dim % r)
                flat = _delta_values(shape, seed + 17 * step + call)
                mod.train(call % 3 == 0)
                mod.to(DTYPES[dtname])
                ctx.case(1, 1)
                calls += 1
                x = torch.tensor(flat, dtype=DTYPES[dtname]).view(shape)
                try:
                    y = mod(x)
                    fresh = M.FeatureDeltas(dim, time_dim, concatenate, order, width, mode, value).to(x.dtype)(x)
                except Exception as e:
                    ctx.violation(dict(sig, symptom="raises", type=type(e).__name__), case,
                                  {"error": str(e)[-300:], "step": step, "call": call})
                    return
                exp, eshape = O.deltas(O.to_dict(x.tolist(), shape), shape, dim, time_dim, concatenate, order,
                                       width, mode, value)
                tol = 1e-6 if dtname == "float64" else 2e-5
                ok = tuple(y.shape) == tuple(eshape) and all(
                    _close(O.nested_get(y.tolist(), idx), exp[idx], tol) for idx in O.indices(eshape))
                if not ok or y.shape != fresh.shape or not torch.allclose(y, fresh, rtol=1e-6, atol=1e-6):
                    ctx.violation(dict(sig, symptom="reused-object-differs-from-fresh-object"), case,
                                  {"step": step, "call": call, "dim": dim, "time_dim": time_dim,
                                   "concatenate": concatenate, "mode": mode, "T": T, "rank": r,
                                   "observed": y.tolist(), "fresh": fresh.tolist()})
                    return
            # constants reassigned on the live object: counted only
            try:
                mod.float()
                mod.concatenate, mod.pad_mode, mod.value = (not concatenate), "constant", 2.5
                shape = _delta_shape(rank, 3, time_dim % rank)
                x = torch.tensor(_delta_values(shape, seed), dtype=torch.float32).view(shape)
                d2 = dim if -rank <= dim < rank else 0
                mod.dim = d2
                y = mod(x)
                want = M.FeatureDeltas(d2, time_dim, not concatenate, order, width, "constant", 2.5)(x)
                _count_reassigned(ctx, y.shape == want.shape and torch.allclose(y, want, atol=1e-5))
            except Exception:
                _count_reassigned(ctx, False)


def _history_mvn(ctx, seed):
    """ONE MeanVarianceNormalization object over a long life: blocks of rank 2 and rank 3 mixed in one
    accumulation (feature axis last), store, forward on both ranks with train/eval switched, a second
    accumulation round on the same object.  dim / eps are `__constants__`: reassigning them is counted."""
    api = "MeanVarianceNormalization"
    chunks = _chunks("quick", seed, 3)
    ids = sorted(chunks)
    for bessel in (False, True):
        case = {"kind": "history-mvn", "seed": seed, "bessel": bessel}
        sig = {"api": api, "history": "one object, ranks mixed, several rounds", "bessel": bessel}
        ctx.case(1, 1)
        try:
            mvn = M.MeanVarianceNormalization(-1)
            for n, c in enumerate(ids):
                mvn.train(n % 2 == 0)
                mvn.accumulate(_layout(chunks[c], 2 + n % 2, 1 + n % 2, torch.float64))  # feature axis last
            mvn.store(bessel=bessel)
            pooled = _frames_of(chunks, ids)
            mean, std, zero = O.pooled_stats(pooled, bessel)
            if not _cmp_stats(ctx, api, case, mvn.mean, mvn.std, pooled, bessel, {"after": "mixed-ranks"}):
                continue
            ok = True
            for n, (rank, pos) in enumerate(((2, 1), (3, 2), (2, 1), (3, 2))):
                mvn.eval() if n % 2 else mvn.train()
                y = mvn(_layout(pooled, rank, pos, torch.float64 if n < 2 else torch.float32))
                if not _check_normalised(ctx, api, dict(case, rank=rank), _unlayout(y, pos, 3), pooled,
                                         mean, std, zero, bessel, 1e-9 if n < 2 else 2e-5, False):
                    ok = False
                    break
            if not ok:
                continue
            # second round on the same object (same dim), statistics of the new data only
            sub = ids[1:3]
            for c in sub:
                mvn.accumulate(_layout(chunks[c], 2, 1, torch.float32))
            mvn.store(bessel=bessel)
            if not _cmp_stats(ctx, api, case, mvn.mean, mvn.std, _frames_of(chunks, sub), bessel,
                              {"after": "second-round"}):
                continue
            # constants reassigned on the live object: counted only
            fr2 = _frames_of(chunks, sub)
            m2, s2, _ = O.pooled_stats(fr2, bessel)
            try:
                mvn.dim = 0
                y = _unlayout(mvn(_layout(fr2, 2, 0, torch.float64)), 0, 3)
                exp = O.normalise(fr2, m2, s2, EPS)
                _count_reassigned(ctx, all(_close(y[i][f], exp[i][f], 1e-9) for i in range(len(fr2)) for f in range(3)))
            except Exception:
                _count_reassigned(ctx, False)
            try:
                mvn.dim, mvn.eps = -1, 4.0
                y = _unlayout(mvn(_layout(fr2, 2, 1, torch.float64)), 1, 3)
                exp = O.normalise(fr2, m2, s2, 4.0)
                _count_reassigned(ctx, all(_close(y[i][f], exp[i][f], 1e-9) for i in range(len(fr2)) for f in range(3)))
            except Exception:
                _count_reassigned(ctx, False)
        except Exception as e:
            ctx.violation(dict(sig, symptom="raises", type=type(e).__name__), case, {"error": str(e)[-300:]})


def _history_returns(ctx, seed):
    """ONE TimeDistributedReturn object per (gamma, batch_first): T and N change from call to call,
    train/eval switched.  gamma / batch_first are `__constants__`: one reassignment per object, counted."""
    rng = random.Random(f"c18-hist-ret-{seed}")
    step = 0
    for gamma in GAMMAS:
        for batch_first in (False, True):
            mod = M.TimeDistributedReturn(gamma, batch_first)
            for T in (3, 1, 4, 2, 5):
                for N in (2, 1, 3):
                    step += 1
                    mod.train(step % 2 == 0)
                    cols = [[rng.choice(REWARDS) for _ in range(T)] for _ in range(N)]
                    r = torch.tensor(cols, dtype=torch.float32)
                    r = r if batch_first else r.t()
                    case = {"kind": "history-returns", "seed": seed, "step": step}
                    ctx.case(1, 1)
                    try:
                        R = mod(r)
                    except Exception as e:
                        ctx.violation({"api": "TimeDistributedReturn", "symptom": "raises", "type": type(e).__name__,
                                       "history": "one object"}, case, {"error": str(e)[-300:]})
                        return
                    got = (R if batch_first else R.t()).tolist()
                    exp = [O.returns(c, gamma) for c in cols]
                    if any(not _close(got[n][t], exp[n][t], 1e-6) for n in range(N) for t in range(T)):
                        ctx.violation({"api": "TimeDistributedReturn", "symptom": "reused-object-differs-from-oracle",
                                       "history": "one object per configuration, T and N vary"}, case,
                                      {"step": step, "gamma": gamma, "batch_first": batch_first,
                                       "expected": exp, "observed": got})
                        return
            try:  # constants reassigned on the live object: counted only
                g2 = 0.5 if gamma != 0.5 else 2.0
                mod.gamma, mod.batch_first = g2, not batch_first
                cols = [[1.0, 2.0, -1.0], [0.0, 1.0, 1.0]]
                r = torch.tensor(cols)
                R = mod(r if not batch_first else r.t())
                got = (R if not batch_first else R.t()).tolist()
                exp = [O.returns(c, g2) for c in cols]
                _count_reassigned(ctx, all(_close(got[n][t], exp[n][t], 1e-6) for n in range(2) for t in range(3)))
            except Exception:
                _count_reassigned(ctx, False)


# ======================================================= object lifecycle (guards.lifecycle_variants)
def _lifecycle(ctx, api, cfg, make, used, make_other, inputs, expect, expect_other, tol, seed):
    """Every lifecycle variant of make() (deepcopy, pickle, torch.save, used+deepcopy, eval+deepcopy,
    state_dict, state_dict-after-use, double-float, state_dict-into-other) must compute, on every input,
    what the definition gives for a fresh object (for state_dict-into-other: the other object's options
    with the loaded state)."""
    case = {"kind": "lifecycle", "api": api, "cfg": cfg, "seed": seed}
    try:
        variants = list(GD.lifecycle_variants(make, used, None, make_other))
    except GD.GuardViolation as e:
        ctx.violation({"api": api, "symptom": "lifecycle-guard", "lifecycle": "eval+deepcopy"}, case, {"error": str(e)})
        return
    except Exception as e:
        ctx.violation({"api": api, "symptom": "raises", "type": type(e).__name__, "lifecycle": "building variants"},
                      case, {"error": str(e)[-300:]})
        return
    if make_other is not None and used is not None:
        # several checkpoints evaluated with one object: it stays in eval mode, was called under no_grad and
        # then receives the state - no mode switch in between that could rebuild derived state by accident
        try:
            o = make_other()
            o.eval()
            with torch.no_grad():
                used(o)
            o.load_state_dict(make().state_dict())
            variants.append(("load_state_dict-after-eval-use", o))
        except Exception:  # a refused load decides nothing
            pass
    for name, obj in [("fresh", make())] + variants:
        for i, x in enumerate(inputs):
            ctx.case(1, 1 if name != "fresh" else 0)
            try:
                y = obj(x)
            except Exception as e:
                ctx.violation({"api": api, "symptom": "raises", "type": type(e).__name__, "lifecycle": name},
                              dict(case, variant=name, input=i), {"error": str(e)[-300:]})
                break
            exp = (expect_other if name in ("state_dict-into-other", "load_state_dict-after-eval-use")
                   else expect)(x)
            e_t = torch.tensor(exp, dtype=torch.float64)
            if tuple(y.shape) != tuple(e_t.shape) or not bool(
                    ((y.double() - e_t).abs() <= tol * (1 + e_t.abs())).all()):
                ctx.violation({"api": api, "symptom": "lifecycle-variant-differs-from-fresh-object",
                               "lifecycle": name}, dict(case, variant=name, input=i),
                              {"expected": exp, "observed": y.tolist()})
                break
    ctx.count("lifecycle variants", len(variants))


def _mvn_expect(rank, pos, mean, std, eps):
    def f(x):
        nfeat = x.shape[pos]
        frames = _unlayout(x.double(), pos, nfeat)
        own_mean, own_std, _ = O.pooled_stats(frames, False)
        y = O.normalise(frames, mean if mean is not None else own_mean, std if std is not None else own_std, eps)
        return _layout(y, rank, pos, torch.float64).reshape(x.shape).tolist() if rank == 2 else \
            torch.tensor(y, dtype=torch.float64).view(*[x.shape[i] for i in range(rank) if i != pos], nfeat) \
            .movedim(-1, pos).tolist()
    return f


def _run_lifecycle(ctx, spec, tier, seed):
    which = spec["which"]
    if which == "mvn":
        chunks = _chunks("quick", seed, 3)
        ids = sorted(chunks)
        A, B = _frames_of(chunks, ids[1:3]), _frames_of(chunks, ids[2:])
        mA, sA, _ = O.pooled_stats(A, False)
        mB, sB, _ = O.pooled_stats(B, False)
        full = _frames_of(chunks, ids)
        for rank, pos, dim in ((2, 1, -1), (2, 0, 0), (3, 1, 1), (3, 0, -3)):
            inputs = [_layout(full, rank, pos, torch.float32), _layout(B, rank, pos, torch.float64),
                      _layout(A[:2], rank, pos, torch.float32)]
            for given in WHICH:
                for eps, eps_other in ((EPS, 0.5), (0.0, EPS), (0.5, 0.0)):
                    def stats(m, sd):
                        return (torch.tensor(m) if given in ("mean", "both") else None,
                                torch.tensor(sd) if given in ("std", "both") else None)

                    def make():
                        return M.MeanVarianceNormalization(dim, *stats(mA, sA), eps)

                    def make_other():
                        return M.MeanVarianceNormalization(dim, *stats(mB, sB), eps_other)

                    em = mA if given in ("mean", "both") else None
                    es = sA if given in ("std", "both") else None
                    if given in ("none", "mean") and eps == 0.5:
                        continue  # own deviation: nothing derived from eps at construction that is not covered
                    _lifecycle(ctx, "MeanVarianceNormalization",
                               {"dim": dim, "rank": rank, "given": given, "eps": eps, "eps_other": eps_other},
                               make, lambda o: o(inputs[1]), make_other, inputs,
                               _mvn_expect(rank, pos, em, es, eps), _mvn_expect(rank, pos, em, es, eps_other),
                               2e-5, seed)
        # lifecycle in the middle of an accumulation: copy, go on accumulating on the copy, store
        import copy
        import io
        import pickle

        def through(kind, o):
            if kind == "deepcopy":
                return copy.deepcopy(o)
            if kind == "pickle":
                return pickle.loads(pickle.dumps(o))
            if kind == "torch.save":
                buf = io.BytesIO()
                torch.save(o, buf)
                buf.seek(0)
                return torch.load(buf, weights_only=False)
            fresh = M.MeanVarianceNormalization(o.dim)
            fresh.accumulate(torch.zeros(1, 3))  # the running buffers must exist to receive the state
            fresh.load_state_dict(o.state_dict())
            return fresh
        for kind in ("deepcopy", "pickle", "torch.save", "state_dict"):
            for bessel in (False, True):
                case = {"kind": "lifecycle-accumulate", "seed": seed, "variant": kind, "bessel": bessel}
                ctx.case(1, 1)
                try:
                    mvn = M.MeanVarianceNormalization(-1)
                    mvn.accumulate(_layout(chunks[ids[1]], 2, 1, torch.float32))
                    mvn.accumulate(_layout(chunks[ids[2]], 3, 2, torch.float64))
                    cp = through(kind, mvn)
                    cp.accumulate(_layout(chunks[ids[3]], 2, 1, torch.float32))
                    cp.store(bessel=bessel)
                    _cmp_stats(ctx, "MeanVarianceNormalization", case, cp.mean, cp.std,
                               _frames_of(chunks, ids[1:4]), bessel, {"lifecycle": kind + " in mid-accumulation"})
                    # the original is not disturbed by what happened to the copy
                    mvn.store(bessel=bessel)
                    _cmp_stats(ctx, "MeanVarianceNormalization", case, mvn.mean, mvn.std,
                               _frames_of(chunks, ids[1:3]), bessel, {"lifecycle": kind + " original after copy"})
                except Exception as e:
                    ctx.violation({"api": "MeanVarianceNormalization", "symptom": "raises", "type": type(e).__name__,
                                   "lifecycle": kind + " in mid-accumulation"}, case, {"error": str(e)[-300:]})
    elif which == "deltas":
        n = 0
        for order, width in ((0, 1), (1, 2), (2, 2)):
            for rank in (2, 3):
                dims = _delta_dims(rank)
                for j in range(0, len(dims), 5):
                    n += 1
                    dim, time_dim, concatenate = dims[j]
                    dim2, time_dim2, concatenate2 = dims[(j + 7) % len(dims)]
                    mode, value = (("constant", 0.0), ("constant", 1.5), ("replicate", 0.0), ("circular", 0.0))[n % 4]
                    mode2, value2 = (("replicate", 0.0), ("constant", 0.0), ("constant", 2.5), ("reflect", 0.0))[n % 4]
                    Ts = [T for T in (5, 3, 4) if O.pad_admitted(T, order * width, mode)
                          and O.pad_admitted(T, order * width, mode2)]
                    if not Ts:
                        continue

                    def mk(T, td):
                        shape = _delta_shape(rank, T, td % rank)
                        return torch.tensor(_delta_values(shape, seed + T), dtype=torch.float32).view(shape)
                    # inputs must suit both configurations' time axes: use the same T on every axis candidate
                    inputs = [mk(T, time_dim) for T in Ts]
                    inputs_other = [mk(T, time_dim2) for T in Ts]

                    def expect_for(d, td, c, m, v):
                        def f(x):
                            shape = tuple(x.shape)
                            exp, eshape = O.deltas(O.to_dict(x.tolist(), shape), shape, d, td, c, order, width, m, v)
                            return torch.tensor([exp[i] for i in O.indices(eshape)], dtype=torch.float64) \
                                .view(eshape).tolist()
                        return f
                    cfg = {"order": order, "width": width, "dim": dim, "time_dim": time_dim,
                           "concatenate": concatenate, "mode": mode, "value": value,
                           "other": [dim2, time_dim2, concatenate2, mode2, value2]}
                    make = lambda: M.FeatureDeltas(dim, time_dim, concatenate, order, width, mode, value)  # noqa: E731
                    other = lambda: M.FeatureDeltas(dim2, time_dim2, concatenate2, order, width, mode2, value2)  # noqa: E731
                    _lifecycle(ctx, "FeatureDeltas", cfg, make, lambda o: o(inputs[0] if o.time_dim == time_dim
                                                                          else inputs_other[0]),
                               None, inputs, expect_for(dim, time_dim, concatenate, mode, value), None, 2e-5, seed)
                    # state_dict-into-other on inputs laid out for the other configuration
                    try:
                        o = other()
                        o.eval()
                        o(inputs_other[0])
                        o.load_state_dict(make().state_dict())
                    except Exception:
                        continue
                    exp_o = expect_for(dim2, time_dim2, concatenate2, mode2, value2)
                    for i, x in enumerate(inputs_other):
                        ctx.case(1, 1)
                        y = o(x)
                        e_t = torch.tensor(exp_o(x), dtype=torch.float64)
                        if tuple(y.shape) != tuple(e_t.shape) or not bool(
                                ((y.double() - e_t).abs() <= 2e-5 * (1 + e_t.abs())).all()):
                            ctx.violation({"api": "FeatureDeltas", "symptom": "lifecycle-variant-differs-from-fresh-object",
                                           "lifecycle": "state_dict-into-other"},
                                          {"kind": "lifecycle", "api": "FeatureDeltas", "cfg": cfg, "seed": seed},
                                          {"expected": e_t.tolist(), "observed": y.tolist()})
                            break
    elif which == "returns":
        rng = random.Random(f"c18-life-ret-{seed}")
        for gamma in GAMMAS:
            for batch_first in (False, True):
                g2 = {0.0: 2.0, 0.5: 0.0, 1.0: 0.5, 2.0: 1.0}[gamma]
                cols_list = [[[rng.choice(REWARDS) for _ in range(T)] for _ in range(N)] for T, N in ((4, 2), (1, 3), (3, 1))]

                def tens(cols):
                    r = torch.tensor(cols, dtype=torch.float32)
                    return r if batch_first else r.t()
                inputs = [tens(c) for c in cols_list]

                def expect_for(g):
                    def f(x):
                        cols = (x if batch_first else x.t()).tolist()
                        R = torch.tensor([O.returns(c, g) for c in cols], dtype=torch.float64)
                        return (R if batch_first else R.t()).tolist()
                    return f
                _lifecycle(ctx, "TimeDistributedReturn", {"gamma": gamma, "batch_first": batch_first, "other_gamma": g2},
                           lambda: M.TimeDistributedReturn(gamma, batch_first), lambda o: o(inputs[0]),
                           lambda: M.TimeDistributedReturn(g2, batch_first), inputs,
                           expect_for(gamma), expect_for(g2), 1e-6, seed)
    else:  # nested use: Sequential(MVN, FeatureDeltas) as SpectDataSet builds it
        chunks = _chunks("quick", seed, 3)
        ids = sorted(chunks)
        A, B = _frames_of(chunks, ids[1:3]), _frames_of(chunks, ids[2:])
        mA, sA, _ = O.pooled_stats(A, False)
        mB, sB, _ = O.pooled_stats(B, False)
        inputs = [torch.tensor(_frames_of(chunks, ids), dtype=torch.float32), torch.tensor(B, dtype=torch.float32)]
        for given in ("both", "none"):
            for order in (0, 2):
                def seq(m, sd):
                    mt = torch.tensor(m) if given == "both" else None
                    st = torch.tensor(sd) if given == "both" else None
                    return torch.nn.Sequential(M.MeanVarianceNormalization(-1, mt, st), M.FeatureDeltas(order=order))

                def expect_for(m, sd):
                    def f(x):
                        frames = x.tolist()
                        om, osd, _ = O.pooled_stats(frames, False)
                        norm = O.normalise(frames, m if given == "both" else om, sd if given == "both" else osd, EPS)
                        shape = tuple(x.shape)
                        exp, eshape = O.deltas(O.to_dict(norm, shape), shape, -1, -2, True, order, 2, "replicate", 0.0)
                        return torch.tensor([exp[i] for i in O.indices(eshape)], dtype=torch.float64).view(eshape).tolist()
                    return f
                _lifecycle(ctx, "Sequential(MeanVarianceNormalization, FeatureDeltas)", {"given": given, "order": order},
                           lambda: seq(mA, sA), lambda o: o(inputs[1]), lambda: seq(mB, sB), inputs,
                           expect_for(mA, sA), expect_for(mA, sA), 5e-5, seed)
    ctx.sample({"part": "lifecycle", "which": which})


def _run_history(ctx, spec, tier, seed):
    which = spec["which"]
    if which == "deltas":
        _history_deltas(ctx, seed, spec["order"], spec["width"])
    elif which == "mvn":
        _history_mvn(ctx, seed)
    else:
        _history_returns(ctx, seed)
    ctx.sample({"part": "history", "spec": spec})


def _run_large(ctx, spec, tier, seed):
    """one deliberately larger instance per function, against the same plain oracles."""
    which = spec["which"]
    rng = random.Random(f"c18-large-{seed}-{which}")
    if which == "mvn":
        sizes = (1, 97, 240, 3, 160, 64, 35)  # 600 frames in 7 blocks, 13 coefficients
        chunks = {c: [[rng.randint(-24, 24) / 8.0 for _ in range(13)] for _ in range(n)]
                  for c, n in enumerate(sizes)}
        for bessel in (False, True):
            for dtname in ("float32", "float64"):
                for rank, pos, dim in ((2, 1, -1), (3, 0, 0), (3, 1, -2)):
                    _mvn_history(ctx, chunks, [[3, 1], [0], [6, 2, 4], [5]], rank, pos, dim, bessel, dtname, "prefix")
    elif which == "deltas":
        shape = (300, 13)
        flat = [rng.randint(-16, 16) / 4.0 for _ in range(300 * 13)]
        for mode in PAD_MODES:
            for order, width in ((2, 2), (3, 3)):
                for dim, time_dim, concatenate in ((-1, 0, True), (0, -2, False), (2, 0, False)):
                    for api in ("functional", "module"):
                        _delta_case(ctx, flat, shape, dim, time_dim, concatenate, order, width, mode, 0.0,
                                    "float64", api, "as-is", True)
    else:
        T, N = 40, 20
        cols = [[rng.choice(REWARDS) for _ in range(T)] for _ in range(N)]
        for batch_first in (False, True):
            for api in ("functional", "module"):
                # float32 where no catastrophic cancellation can occur, float64 for gamma = 2
                for gamma, dtname, tol in ((0.0, "float32", 1e-6), (0.5, "float32", 1e-5), (1.0, "float32", 1e-6),
                                           (2.0, "float64", 1e-9)):
                    _return_batch(ctx, cols, gamma, batch_first, dtname, api, "as-is", True, tol)
    ctx.sample({"part": "large", "which": which})


# ================================================= long instances along every axis (item 6)
LONG_T = (1025, 2049, 3000, 4097)  # just past 2^10, 2^11, 2^12 and one that is no power of two
# (gamma, dtype, relative tolerance).  The first five keep gamma**T a normal number of the dtype; the others do NOT
# (0.5**1025 and 0.9**1025 underflow float32, 0.5**2049 underflows float64, 2**T overflows both): "all discount factors
# including ... values above 1" - every step whose own return is representable is judged (round 6; an earlier version
# of this pass kept to representable powers and so stayed silent on F51)
LONG_GAMMAS = ((0.9, "float64", 1e-9), (0.99, "float64", 1e-9), (1.002, "float64", 1e-9),
               (0.99, "float32", 5e-4), (1.002, "float32", 5e-4),
               (0.5, "float32", 5e-4), (0.9, "float32", 5e-4), (0.5, "float64", 1e-9),
               (2.0, "float32", 5e-4), (2.0, "float64", 1e-9))
REPRESENTABLE = {"float32": 1e30, "float64": 1e300}  # steps whose return magnitude exceeds this are not judged


def _long_return_case(ctx, T, N, gamma, dtname, tol, batch_first, api, seed):
    """R_t = r_t + gamma R_(t+1) by the plain backward recursion in float64; the comparison is relative to
    S_t = sum_t' gamma^(t'-t) |r_t'| (the magnitude the rounding errors of any summation order scale
    with): float64 1e-9, float32 5e-4 (T * 2^-24 = 2.4e-4 for T = 4097, doubled)."""
    rng = random.Random(f"c18-long-ret-{seed}-{T}-{N}")
    cols = [[rng.choice(REWARDS) for _ in range(T)] for _ in range(N)]
    case = {"kind": "long-return", "T": T, "N": N, "gamma": gamma, "dtype": dtname, "tol": tol,
            "batch_first": batch_first, "api": api, "seed": seed}
    ctx.case(1, 1)
    sig = {"api": "time_distributed_return", "long_horizon": True, "batch_first": batch_first, "gamma": gamma,
           "dtype": dtname, "gamma_pow_T_leaves_range": gamma > 0 and gamma != 1 and abs(T * math.log(gamma)) > (
               85.0 if dtname == "float32" else 690.0)}
    r = torch.tensor(cols, dtype=DTYPES[dtname])
    r = r if batch_first else r.t().contiguous()
    rc = r.clone()
    try:
        if api == "functional":
            R = F.time_distributed_return(r, gamma, batch_first)
        else:
            R = M.TimeDistributedReturn(gamma, batch_first)(r)
    except Exception as e:
        ctx.violation(dict(sig, symptom="raises", type=type(e).__name__), case, {"error": str(e)[-300:]})
        return
    if not _args_unchanged(ctx, "time_distributed_return", case, [(r, rc)]):
        return
    if tuple(R.shape) != tuple(r.shape):
        ctx.violation(dict(sig, symptom="wrong-shape"), case, {"observed": tuple(R.shape)})
        return
    got = (R if batch_first else R.t()).tolist()
    for n in range(N):
        exp = O.returns(cols[n], gamma)
        mag = O.returns([abs(v) for v in cols[n]], gamma)
        bad = [t for t in range(T) if mag[t] < REPRESENTABLE[dtname]
               and not abs(got[n][t] - exp[t]) <= tol * (1.0 + mag[t])]
        ctx.count("long_return_steps_not_judged (return beyond the dtype's range)",
                  sum(1 for t in range(T) if not mag[t] < REPRESENTABLE[dtname]))
        if bad:
            t = bad[-1]
            ctx.violation(dict(sig, symptom="wrong-return"), case,
                          {"column": n, "wrong_steps": len(bad), "first_wrong": bad[0], "last_wrong": t,
                           "expected_at_last_wrong": exp[t], "observed_at_last_wrong": got[n][t],
                           "magnitude": mag[t]})
            return
    ctx.outcome([T, gamma, round(exp[-2] * 16)])


def _run_long(ctx, spec, tier, seed):
    which = spec["which"]
    if which == "returns":
        T = spec["T"]
        n = 0
        for gamma, dtname, tol in LONG_GAMMAS:
            for batch_first in (False, True):
                n += 1
                for api in ("functional", "module"):
                    _long_return_case(ctx, T, 3, gamma, dtname, tol, batch_first, api, seed)
        # gamma in {0, 1} for completeness (the recursion degenerates)
        _long_return_case(ctx, T, 2, 0.0, "float32", 1e-6, T % 2 == 0, "functional", seed)
        _long_return_case(ctx, T, 2, 1.0, "float64", 1e-9, T % 2 == 1, "module", seed)
    elif which == "mvn":
        # many frames in one call, and many calls: 70,001 + 3,000 frames of 2 coefficients (float64, exact sums)
        rng = random.Random(f"c18-long-mvn-{seed}")
        big = [[rng.randint(-24, 24) / 8.0 for _ in range(2)] for _ in range(70001)]
        small = [[[rng.randint(-24, 24) / 8.0 for _ in range(2)] for _ in range(1 + i % 3)] for i in range(1500)]
        allfr = big + [fr for b in small for fr in b]
        for bessel in (False, True):
            for pos, dim in ((1, -1), (0, 0)):
                case = {"kind": "long-mvn", "seed": seed, "bessel": bessel, "dim": dim}
                ctx.case(1, 1)
                try:
                    mvn = M.MeanVarianceNormalization(dim)
                    for i, b in enumerate(small[:750]):
                        mvn.accumulate(_layout(b, 2, pos, torch.float64))
                    mvn.accumulate(_layout(big, 2, pos, torch.float64))
                    for b in small[750:]:
                        mvn.accumulate(_layout(b, 2, pos, torch.float64))
                    mvn.store(bessel=bessel)
                    _cmp_stats(ctx, "MeanVarianceNormalization", case, mvn.mean, mvn.std, allfr, bessel,
                               {"long": "70001 frames in one call, 1500 further calls"})
                except Exception as e:
                    ctx.violation({"api": "MeanVarianceNormalization", "symptom": "raises", "type": type(e).__name__,
                                   "long": True}, case, {"error": str(e)[-300:]})
    else:
        rng = random.Random(f"c18-long-deltas-{seed}")
        shape = (5000, 1)
        flat = [rng.randint(-16, 16) / 4.0 for _ in range(5000)]
        for mode in PAD_MODES:
            for api in ("functional", "module"):
                _delta_case(ctx, flat, shape, -1, 0, True, 2, 2, mode, 0.0, "float64", api)
                _delta_case(ctx, flat, shape[::-1], 0, -1, False, 1, 3, mode, 0.0, "float32", api)
    ctx.sample({"part": "long", "spec": spec})


# ============================================= partially specified statistics / call variants
WHICH = ("none", "mean", "std", "both")
VARIANTS = ("eager", "script", "trace", "inference", "default64", "grad", "shared")


def _mvn_partial(ctx, frames, stat_frames, which, route, rank, pos, dim, dtname, variant="eager", statdt="float64"):
    """mean only / std only / both / none, supplied from OTHER data (stat_frames), through the module
    constructor or the functional's keyword arguments: a missing statistic is the input's own.
    variant: how the call is made (plain, scripted module, traced module, inside inference_mode,
    with float64 as default dtype, input requiring grad, one tensor object for mean and std)."""
    dtype = DTYPES[dtname]
    nfeat = len(frames[0])
    case = {"kind": "partial", "frames": frames, "stat_frames": stat_frames, "which": which, "route": route,
            "rank": rank, "pos": pos, "dim": dim, "dtype": dtname, "variant": variant, "statdt": statdt}
    ctx.case(1, 1 if which in ("mean", "std") else 0)
    api = "mean_var_norm" if route == "functional" else "MeanVarianceNormalization"
    sig = {"api": api, "given": which, "variant": variant}
    tol = 1e-9 if dtname == "float64" and statdt == "float64" else 2e-5
    smean, sstd, _ = O.pooled_stats(stat_frames, False)
    if variant == "shared":  # one tensor object serves as mean and as std
        smean = sstd = [abs(m) + 1.0 for m in smean]
    own_mean, own_std, zero = O.pooled_stats(frames, False)
    if which == "mean" and any(zero):
        # own deviation 0 but a foreign mean: (x - mean) / eps with eps = 1e-38 overflows float32
        ctx.count("constant coefficient with a foreign mean (skipped)")
        return
    emean = smean if which in ("mean", "both") else own_mean
    estd = sstd if which in ("std", "both") else own_std
    prev_default = torch.get_default_dtype()
    try:
        if variant == "default64":
            torch.set_default_dtype(torch.float64)
        mean_t = torch.tensor(smean, dtype=DTYPES[statdt]) if which in ("mean", "both") else None
        std_t = torch.tensor(sstd, dtype=DTYPES[statdt]) if which in ("std", "both") else None
        if variant == "shared" and which == "both":
            std_t = mean_t
        keep = [(t, t.clone()) for t in (mean_t, std_t) if t is not None]
        x = _layout(frames, rank, pos, dtype)
        if variant == "grad":
            x = x.clone().requires_grad_(True)
        xc = x.detach().clone()
        if route == "functional":
            fn = lambda t: F.mean_var_norm(t, dim, mean_t, std_t)  # noqa: E731
        else:
            fn = M.MeanVarianceNormalization(dim, mean_t, std_t)
            if variant == "script":
                fn = torch.jit.script(fn)
            elif variant == "trace":
                ex_shape = [1] * rank
                ex_shape[pos] = nfeat
                fn = torch.jit.trace(fn, (torch.zeros(ex_shape, dtype=dtype),))
        if variant == "inference":
            with torch.inference_mode():
                y = fn(x)
        else:
            y = fn(x)
        if variant == "grad":
            y.sum().backward()
            y = y.detach()
        if not _args_unchanged(ctx, api, case, [(x.detach(), xc)] + keep):
            return
    except Exception as e:
        ctx.violation(dict(sig, symptom="raises", type=type(e).__name__), case, {"error": str(e)[-300:]})
        return
    finally:
        torch.set_default_dtype(prev_default)
    if y.dtype != dtype or tuple(y.shape) != tuple(x.shape):
        ctx.violation(dict(sig, symptom="wrong-shape-or-dtype"), case, {"shape": tuple(y.shape), "dtype": str(y.dtype)})
        return
    yf = _unlayout(y, pos, nfeat)
    exp = O.normalise(frames, emean, estd, EPS)
    bad = [(i, f) for i in range(len(frames)) for f in range(nfeat) if not _close(yf[i][f], exp[i][f], tol)]
    if bad:
        ctx.violation(dict(sig, symptom="normalised-values-differ-from-definition"), case,
                      {"mean_used": emean, "std_used": estd, "expected": exp, "observed": yf, "bad": bad[:5]})
        return
    # the clauses themselves: own std => unit variance, own mean => zero mean (whatever the other one is)
    mom = O.moments(yf, False)
    for f, (m, v) in enumerate(mom):
        if which in ("none", "std") and not zero[f] and not _close(m, 0.0, 10 * tol * (1 + 1 / estd[f])):
            ctx.violation(dict(sig, symptom="normalised-mean-not-zero"), case, {"coefficient": f, "mean": m})
            return
        if which in ("none", "mean") and not zero[f] and not _close(v, 1.0, 10 * tol):
            ctx.violation(dict(sig, symptom="normalised-variance-not-one"), case, {"coefficient": f, "variance": v})
            return
    ctx.outcome([which] + [round(v * 1024) for v in exp[0]])


def _stat_sources(chunks, ids):
    """subsets whose pooled deviation is non-zero in every coefficient (a supplied std of 0 is clamped
    to eps=1e-38 and overflows float32 - outside the alphabet)."""
    out = []
    for k in range(1, len(ids) + 1):
        for sub in itertools.combinations(ids, k):
            fr = _frames_of(chunks, sub)
            if len(fr) >= 2 and not any(O.pooled_stats(fr, False)[2]):
                out.append(sub)
    return out


def _run_partial(ctx, chunks, ids, rank, pos, dim, dtname):
    srcs = _stat_sources(chunks, ids)
    n = 0
    for k in range(1, len(ids) + 1):
        for subset in itertools.combinations(ids, k):
            frames = _frames_of(chunks, subset)
            for src in srcs:
                if src == subset:
                    continue
                sfr = _frames_of(chunks, src)
                for which in WHICH:
                    n += 1
                    for route in ("module", "functional"):
                        _mvn_partial(ctx, frames, sfr, which, route, rank, pos, dim, dtname, "eager",
                                     "float64" if n % 2 else "float32")


def _dataset_case(ctx, chunks, ids, src, which, delta_order, seed):
    """SpectDataSet(do_mvn=True, feat_mean=?, feat_std=?): every utterance is normalised with the supplied
    statistics, a missing one being the utterance's own; delta_order>0 appends the deltas afterwards."""
    from pydrobert.torch.data import SpectDataSet, SpectDataParams

    api = "SpectDataSet(do_mvn)"
    case = {"kind": "dataset", "chunks": {str(c): chunks[c] for c in ids}, "src": list(src), "which": which,
            "delta_order": delta_order, "seed": seed}
    ctx.case(1, 1 if which in ("mean", "std") else 0)
    sig = {"api": api, "given": which, "delta_order": delta_order}
    root = os.path.join(_scratch(), "ds")
    shutil.rmtree(root, ignore_errors=True)
    os.makedirs(os.path.join(root, "feat"))
    try:
        for c in ids:
            torch.save(torch.tensor(chunks[c], dtype=torch.float32), os.path.join(root, "feat", f"utt{c}.pt"))
        smean, sstd, _ = O.pooled_stats(_frames_of(chunks, src), False)
        params = SpectDataParams(do_mvn=True, delta_order=delta_order)
        ds = SpectDataSet(root, params=params,
                          feat_mean=torch.tensor(smean) if which in ("mean", "both") else None,
                          feat_std=torch.tensor(sstd) if which in ("std", "both") else None,
                          suppress_alis=True, tokens_only=False)
        if len(ds) != len(ids):
            raise AssertionError(f"{len(ds)} utterances, expected {len(ids)}")
        for n, c in enumerate(ids):  # utt ids sort like the chunk ids
            feat = ds[n][0]
            frames = chunks[c]
            own_mean, own_std, zero = O.pooled_stats(frames, False)
            emean = smean if which in ("mean", "both") else own_mean
            estd = sstd if which in ("std", "both") else own_std
            if any(zero) and which in ("none", "mean"):
                continue  # single-frame utterance: own deviation 0, clamped by eps
            norm = O.normalise(frames, emean, estd, EPS)
            shape = (len(frames), len(frames[0]))
            exp, eshape = O.deltas(O.to_dict(norm, shape), shape, -1, -2, True, delta_order, 2, "replicate", 0.0)
            got = feat.tolist()
            if tuple(feat.shape) != tuple(eshape) or any(
                    not _close(O.nested_get(got, idx), exp[idx], 5e-5) for idx in O.indices(eshape)):
                ctx.violation(dict(sig, symptom="features-differ-from-definition"), case,
                              {"utterance": c, "expected": [exp[i] for i in O.indices(eshape)], "observed": got})
                return
    except Exception as e:
        ctx.violation(dict(sig, symptom="raises", type=type(e).__name__), case, {"error": str(e)[-300:]})


def _run_dataset(ctx, spec, tier, seed):
    chunks = _chunks("quick", seed, 3)
    ids = sorted(chunks)
    try:
        for src in _stat_sources(chunks, ids):
            for which in WHICH:
                for delta_order in (0, 2):
                    _dataset_case(ctx, chunks, ids, src, which, delta_order, seed)
        ctx.sample({"part": "dataset", "utterances": [len(chunks[c]) for c in ids], "given": WHICH})
    finally:
        shutil.rmtree(f"/dev/shm/verif-{os.getpid()}", ignore_errors=True)


def _run_modes(ctx, spec, tier, seed):
    """(8)-(10): scripted / traced modules (as tests/test_feats.py and tests/test_rl.py build them),
    inference_mode, float64 as the default dtype, inputs requiring grad, one tensor object passed twice."""
    which_part = spec["which"]
    if which_part == "mvn":
        chunks = _chunks("quick", seed, 3)
        ids = sorted(chunks)
        full = _frames_of(chunks, ids)
        inputs = [(full, _frames_of(chunks, ids[1:3])), (_frames_of(chunks, ids[2:]), full)]
        for variant in VARIANTS[1:]:
            for rank, pos, dim in ((2, 1, -1), (2, 0, 0), (3, 1, 1), (3, 0, -3)):
                for frames, sfr in inputs:
                    for which in (("both",) if variant == "shared" else WHICH):
                        routes = ("module",) if variant in ("script", "trace") else ("module", "functional")
                        for route in routes:
                            for dtname in ("float32", "float64"):
                                _mvn_partial(ctx, frames, sfr, which, route, rank, pos, dim, dtname, variant)
        # a scripted module accumulates and stores like the plain one (tests/test_feats.py, style 'accum');
        # the same tensor object handed to accumulate() twice counts twice
        for bessel in (False, True):
            for scripted in (False, True):
                case = {"kind": "modes-accum", "seed": seed, "bessel": bessel, "scripted": scripted}
                ctx.case(1, 1)
                try:
                    mvn = M.MeanVarianceNormalization(-1)
                    if scripted:
                        mvn = torch.jit.script(mvn)
                    x = _layout(chunks[ids[2]], 2, 1, torch.float32)
                    for t in (x, x, _layout(chunks[ids[1]], 3, 2, torch.float32)):
                        mvn.accumulate(t)
                    mvn.store(bessel=bessel)
                    _cmp_stats(ctx, "MeanVarianceNormalization", case, mvn.mean, mvn.std,
                               chunks[ids[2]] * 2 + chunks[ids[1]], bessel,
                               {"variant": "script" if scripted else "same-object-twice"})
                except Exception as e:
                    ctx.violation({"api": "MeanVarianceNormalization", "symptom": "raises", "type": type(e).__name__,
                                   "variant": "script" if scripted else "same-object-twice"}, case,
                                  {"error": str(e)[-300:]})
    elif which_part == "deltas":
        n = 0
        for order, width in ((0, 1), (1, 1), (1, 2), (2, 1), (2, 2)):
            for mode in PAD_MODES:
                for rank in (2, 3):
                    dims = _delta_dims(rank)
                    dim, time_dim, concatenate = dims[(7 * n + 3) % len(dims)]
                    n += 1
                    for variant in ("script", "trace", "inference", "default64", "grad"):
                        for T in (1, 2, 4, 5):
                            shape = _delta_shape(rank, T, time_dim % rank)
                            _delta_variant(ctx, _delta_values(shape, seed), shape, dim, time_dim, concatenate,
                                           order, width, mode, variant)
    else:
        rng = random.Random(f"c18-modes-ret-{seed}")
        for gamma in GAMMAS:
            for batch_first in (False, True):
                for variant in ("script", "trace", "inference", "default64", "grad"):
                    for T, N in ((1, 1), (3, 2), (4, 3), (2, 1)):
                        cols = [[rng.choice(REWARDS) for _ in range(T)] for _ in range(N)]
                        _return_variant(ctx, cols, gamma, batch_first, variant)
    ctx.sample({"part": "modes", "which": which_part, "variants": VARIANTS[1:]})


_JIT = {}


def _delta_variant(ctx, flat, shape, dim, time_dim, concatenate, order, width, mode, variant):
    T = shape[time_dim % len(shape)]
    if not O.pad_admitted(T, order * width, mode):
        return
    case = {"kind": "delta-variant", "flat": flat, "shape": list(shape), "dim": dim, "time_dim": time_dim,
            "concatenate": concatenate, "order": order, "width": width, "mode": mode, "variant": variant}
    ctx.case(1, 1 if order else 0)
    sig = {"api": "FeatureDeltas", "variant": variant, "mode": mode, "concatenate": concatenate}
    dtype = torch.float64 if variant == "default64" else torch.float32
    prev_default = torch.get_default_dtype()
    try:
        if variant == "default64":
            torch.set_default_dtype(torch.float64)
        x = torch.tensor(flat, dtype=dtype).view(shape)
        key = (variant, dim, time_dim, concatenate, order, width, mode, len(shape))
        if variant in ("script", "trace"):
            if key not in _JIT:
                mod = M.FeatureDeltas(dim, time_dim, concatenate, order, width, mode)
                if variant == "script":
                    _JIT[key] = torch.jit.script(mod)
                else:  # traced on a different T, run on this one
                    ex = list(shape)
                    ex[time_dim % len(shape)] = 3 if O.pad_admitted(3, order * width, mode) else 2 * order * width + 1
                    _JIT[key] = torch.jit.trace(mod, (torch.zeros(ex),))
            y = _JIT[key](x)
        elif variant == "inference":
            with torch.inference_mode():
                y = M.FeatureDeltas(dim, time_dim, concatenate, order, width, mode)(x)
        elif variant == "grad":
            xg = x.clone().requires_grad_(True)
            y = F.feat_deltas(xg, dim, time_dim, concatenate, order, width, mode)
            y.sum().backward()
            y = y.detach()
        else:
            y = M.FeatureDeltas(dim, time_dim, concatenate, order, width, mode)(x)
    except Exception as e:
        ctx.violation(dict(sig, symptom="raises", type=type(e).__name__, order_ge_1=order >= 1), case,
                      {"error": str(e)[-300:]})
        return
    finally:
        torch.set_default_dtype(prev_default)
    exp, eshape = O.deltas(O.to_dict(x.tolist(), shape), shape, dim, time_dim, concatenate, order, width, mode, 0.0)
    got = y.tolist()
    if tuple(y.shape) != tuple(eshape) or y.dtype != dtype or any(
            not _close(O.nested_get(got, idx), exp[idx], 2e-5) for idx in O.indices(eshape)):
        ctx.violation(dict(sig, symptom="variant-differs-from-definition"), case,
                      {"expected_shape": eshape, "observed_shape": tuple(y.shape), "dtype": str(y.dtype),
                       "observed": got})


def _return_variant(ctx, cols, gamma, batch_first, variant):
    N, T = len(cols), len(cols[0])
    case = {"kind": "return-variant", "cols": cols, "gamma": gamma, "batch_first": batch_first, "variant": variant}
    ctx.case(1, 1 if T >= 2 and gamma else 0)
    sig = {"api": "TimeDistributedReturn", "variant": variant, "gamma": gamma, "batch_first": batch_first}
    dtype = torch.float64 if variant == "default64" else torch.float32
    prev_default = torch.get_default_dtype()
    try:
        if variant == "default64":
            torch.set_default_dtype(torch.float64)
        r = torch.tensor(cols, dtype=dtype).view(N, T)
        r = r if batch_first else r.t()
        key = (variant, gamma, batch_first)
        if variant in ("script", "trace"):
            if key not in _JIT:
                mod = M.TimeDistributedReturn(gamma, batch_first)
                _JIT[key] = torch.jit.script(mod) if variant == "script" else torch.jit.trace(mod, (torch.zeros(2, 2),))
            R = _JIT[key](r)
        elif variant == "inference":
            with torch.inference_mode():
                R = F.time_distributed_return(r, gamma, batch_first)
        elif variant == "grad":
            rg = r.clone().requires_grad_(True)
            R = M.TimeDistributedReturn(gamma, batch_first)(rg)
            R.sum().backward()
            R = R.detach()
        else:
            R = M.TimeDistributedReturn(gamma, batch_first)(r)
    except Exception as e:
        ctx.violation(dict(sig, symptom="raises", type=type(e).__name__), case, {"error": str(e)[-300:]})
        return
    finally:
        torch.set_default_dtype(prev_default)
    got = (R if batch_first else R.t()).tolist()
    exp = [O.returns(c, gamma) for c in cols]
    if tuple(R.shape) != tuple(r.shape) or any(
            not _close(got[n][t], exp[n][t], 1e-6) for n in range(N) for t in range(T)):
        ctx.violation(dict(sig, symptom="variant-differs-from-definition"), case, {"expected": exp, "observed": got})


# =============================================================================== driver
def shards(tier, seed):
    out = []
    feats = (1, 3) if tier == "quick" else (1, 2, 3)
    for rank in (2, 3):
        for pos, dim in _dim_spellings(rank):
            for nfeat in feats:
                for dtname in ("float64", "float32"):
                    out.append({"part": "mvn", "rank": rank, "pos": pos, "dim": dim, "F": nfeat,
                                "dtype": dtname})
    for nfeat in feats:  # single frames as 1-D tensors (F,) mixed with (m, F) blocks, feature axis spelled -1
        for dtname in ("float64", "float32"):
            out.append({"part": "mvn", "rank": 1, "pos": -1, "dim": -1, "F": nfeat, "dtype": dtname})
    for rank in (2, 3):
        for pos, dim in _dim_spellings(rank):
            out.append({"part": "cli", "rank": rank, "pos": pos, "dim": dim})
    orders = range(0, 3) if tier == "quick" else range(0, 4)
    widths = range(1, 3) if tier == "quick" else range(1, 4)
    for order in orders:
        for width in widths:
            for mode in PAD_MODES:
                out.append({"part": "deltas", "order": order, "width": width, "mode": mode})
    for T in range(0, 5):
        out.append({"part": "returns", "T": T, "N": 1})
    for T in range(0, 4):
        out.append({"part": "returns", "T": T, "N": 2})
    nseq = len(REWARDS) ** 4
    step = nseq // 16
    for lo in range(0, nseq, step):
        out.append({"part": "returns", "T": 4, "N": 2, "lo": lo, "hi": min(nseq, lo + step)})
    # ---- guard passes: layouts / kept results / object histories / one larger instance
    for rank in (2, 3):
        for pos, dim in _dim_spellings(rank):
            out.append({"part": "guards-mvn", "rank": rank, "pos": pos, "dim": dim})
    for width in (1, 2):
        for mode in PAD_MODES:
            out.append({"part": "guards-deltas", "width": width, "mode": mode})
    out.append({"part": "guards-returns", "N": 1})
    out.append({"part": "guards-returns", "N": 2})
    for order, width in ((0, 1), (1, 1), (1, 2), (2, 1), (2, 2)):
        out.append({"part": "history", "which": "deltas", "order": order, "width": width})
    out.append({"part": "history", "which": "mvn"})
    out.append({"part": "history", "which": "returns"})
    for which in ("mvn", "deltas", "returns"):
        out.append({"part": "large", "which": which})
        out.append({"part": "modes", "which": which})
    out.append({"part": "dataset"})
    for which in ("mvn", "deltas", "returns", "nested"):
        out.append({"part": "lifecycle", "which": which})
    for T in LONG_T:
        out.append({"part": "long", "which": "returns", "T": T})
    out.append({"part": "long", "which": "mvn"})
    out.append({"part": "long", "which": "deltas"})
    # heavy shards first so the pool stays busy
    weight = {"returns": 0, "deltas": 1, "mvn": 2, "cli": 3, "guards-returns": 0, "guards-deltas": 1,
              "guards-mvn": 2, "history": 3, "large": 1, "modes": 0, "dataset": 2, "long": -1, "lifecycle": 0}
    # (the cheap history / large parts come first so that a tight wall budget can never skip them)
    out.sort(key=lambda s: (-1 if s["part"] in ("history", "large", "modes", "dataset", "long", "lifecycle") else
                            0 if (s["part"] == "returns" and s.get("hi")) else 1, weight[s["part"]]))
    return out


def run_shard(spec, tier, seed):
    ctx = Ctx()
    part = spec["part"]
    if part == "mvn":
        _run_mvn_shard(ctx, spec, tier, seed)
    elif part == "cli":
        _run_cli_shard(ctx, spec, tier, seed)
    elif part == "deltas":
        _run_delta_shard(ctx, spec, tier, seed)
    elif part == "guards-mvn":
        _run_guard_mvn(ctx, spec, tier, seed)
    elif part == "guards-deltas":
        _run_guard_deltas(ctx, spec, tier, seed)
    elif part == "guards-returns":
        _run_guard_returns(ctx, spec, tier, seed)
    elif part == "history":
        _run_history(ctx, spec, tier, seed)
    elif part == "large":
        _run_large(ctx, spec, tier, seed)
    elif part == "modes":
        _run_modes(ctx, spec, tier, seed)
    elif part == "long":
        _run_long(ctx, spec, tier, seed)
    elif part == "lifecycle":
        _run_lifecycle(ctx, spec, tier, seed)
    elif part == "dataset":
        _run_dataset(ctx, spec, tier, seed)
    else:
        _run_return_shard(ctx, spec, tier, seed)
    return ctx


def replay(case):
    ctx = Ctx()
    kind = case["kind"]
    if kind == "mvn":
        chunks = {int(k): v for k, v in case["chunks"].items()}
        _mvn_history(ctx, chunks, case["history"], case["rank"], case["pos"], case["dim"],
                     case["bessel"], case["dtype"], case["mode"], None, case.get("layout", "as-is"))
    elif kind == "own":
        _mvn_own(ctx, case["frames"], case["rank"], case["pos"], case["dim"], case["dtype"], case["how"],
                 case.get("layout", "as-is"))
    elif kind == "cli":
        chunks = {int(k): v for k, v in case["chunks"].items()}
        try:
            _cli_case(ctx, chunks, case["order"], case["groups"], case["rank"], case["pos"],
                      case["dim"], case["bessel"])
        finally:
            shutil.rmtree(f"/dev/shm/verif-{os.getpid()}", ignore_errors=True)
    elif kind == "delta":
        _delta_case(ctx, case["flat"], tuple(case["shape"]), case["dim"], case["time_dim"],
                    case["concatenate"], case["order"], case["width"], case["mode"], case["value"],
                    case["dtype"], case["api"], case.get("layout", "as-is"), case.get("guard", False))
    elif kind == "return":
        _return_batch(ctx, case["cols"], case["gamma"], case["batch_first"], case["dtype"], case["api"],
                      case.get("layout", "as-is"), case.get("guard", False), case.get("tol", 1e-6))
    elif kind in ("lifecycle", "lifecycle-accumulate"):
        which = {"MeanVarianceNormalization": "mvn", "FeatureDeltas": "deltas",
                 "TimeDistributedReturn": "returns"}.get(case.get("api", "MeanVarianceNormalization"), "nested")
        _run_lifecycle(ctx, {"which": which}, "quick", case["seed"])
    elif kind == "long-return":
        _long_return_case(ctx, case["T"], case["N"], case["gamma"], case["dtype"], case["tol"],
                          case["batch_first"], case["api"], case["seed"])
    elif kind == "long-mvn":
        _run_long(ctx, {"which": "mvn"}, "quick", case["seed"])
    elif kind == "partial":
        _mvn_partial(ctx, case["frames"], case["stat_frames"], case["which"], case["route"], case["rank"],
                     case["pos"], case["dim"], case["dtype"], case["variant"], case["statdt"])
    elif kind == "dataset":
        chunks = {int(k): v for k, v in case["chunks"].items()}
        try:
            _dataset_case(ctx, chunks, sorted(chunks), tuple(case["src"]), case["which"], case["delta_order"],
                          case["seed"])
        finally:
            shutil.rmtree(f"/dev/shm/verif-{os.getpid()}", ignore_errors=True)
    elif kind == "delta-variant":
        _delta_variant(ctx, case["flat"], tuple(case["shape"]), case["dim"], case["time_dim"], case["concatenate"],
                       case["order"], case["width"], case["mode"], case["variant"])
    elif kind == "return-variant":
        _return_variant(ctx, case["cols"], case["gamma"], case["batch_first"], case["variant"])
    elif kind == "modes-accum":
        _run_modes(ctx, {"which": "mvn"}, "quick", case["seed"])
    elif kind == "history-deltas":
        _history_deltas(ctx, case["seed"], case["order"], case["width"])
    elif kind == "history-mvn":
        _history_mvn(ctx, case["seed"])
    elif kind == "history-returns":
        _history_returns(ctx, case["seed"])
    else:
        raise ValueError(kind)
    return ctx
