"""C09 - object lifecycle of PadVariable, ChunkBySlices, PadMaskedSequence and RandomShift.

Every module is built in several configurations (ordinary ones and FALSY-but-legal ones: value 0.0,
proportion 0 / 0.0 / (0.0, 1.0), flags False, defaults left out), sent through a lifecycle operation and
then called on two small batches.  Whatever happened to the object, each call must give what a fresh object
gives: the single-sequence oracle; RandomShift in training mode additionally the functional under the same
scripted draws, and in evaluation mode the input itself.

Variants: ``mc.guards.lifecycle_variants`` (deepcopy, pickle, torch.save/load, used+deepcopy, eval+deepcopy,
state_dict, state_dict-after-use, double-float) and, for training AND evaluation mode, a copy by deepcopy /
pickle / torch.save+load of the module alone, of a torch.nn.Sequential holding it and of a model holding it
as an attribute - the mode is set on the outermost object before the copy and the copied child is called.
"""

import copy
import io
import pickle

import torch

import pydrobert.torch.modules as M

from mc import guards
from mc.seams import ScriptedRandom
from checks import _c09_hist as H

KINDS = H.KINDS

# (constructor arguments, state the oracle is told, falsy?)
CONFIGS = {
    "PadVariable": [
        ((), {"mode": "constant", "value": 0.0}, True),
        (("constant", 0.0), {"mode": "constant", "value": 0.0}, True),
        (("constant", -7.5), {"mode": "constant", "value": -7.5}, False),
        (("replicate", 0.0), {"mode": "replicate", "value": 0.0}, True),
        (("reflect",), {"mode": "reflect", "value": 0.0}, False),
    ],
    "PadMaskedSequence": [
        ((), {"batch_first": False, "value": 0.0}, True),
        ((False, 0.0), {"batch_first": False, "value": 0.0}, True),
        ((True, -1.5), {"batch_first": True, "value": -1.5}, False),
        ((True, 0.0), {"batch_first": True, "value": 0.0}, True),
    ],
    "RandomShift": [
        ((0.0, "constant", 0.0), {"mode": "constant", "value": 0.0, "props": ("0.0", "0.0")}, True),
        ((0, "replicate"), {"mode": "replicate", "value": 0.0, "props": ("0", "0")}, True),
        (((0.0, 1.0), "constant", 0.0), {"mode": "constant", "value": 0.0, "props": ("0.0", "1.0")}, True),
        ((1.0,), {"mode": "reflect", "value": 0.0, "props": ("1.0", "1.0")}, False),
        ((2.0, "constant", -7.5), {"mode": "constant", "value": -7.5, "props": ("2.0", "2.0")}, False),
        (((1.0, 0.0), "replicate", 0.0), {"mode": "replicate", "value": 0.0, "props": ("1.0", "0.0")}, True),
    ],
}
CONFIGS["ChunkBySlices"] = CONFIGS["PadVariable"]


class Model(torch.nn.Module):
    """A model that holds the layer as an attribute (picklable: defined at module level)."""

    def __init__(self, layer):
        super().__init__()
        self.lin = torch.nn.Linear(2, 2)
        self.layer = layer

    def forward(self, *args):
        return self.layer(*args)


def make(kind, cfg):
    return getattr(M, kind)(*CONFIGS[kind][cfg][0])


def state_of(kind, cfg, training=True):
    st = {"mode": "constant", "value": 0.0, "batch_first": False, "training": training}
    st.update(CONFIGS[kind][cfg][1])
    return st


def calls(kind):
    """The two batches a variant is called on: (N, T, lens given?)."""
    if kind == "RandomShift":
        return [(2, 4, True, None), (1, 2, True, None)]
    return [(2, 3, True, None), (1, 5, False, None)]


def exercise(kind, obj, st, seed, k0=7):
    """Calls the object on both batches; returns the first problem or None."""
    for k, step in enumerate(calls(kind)):
        _, probs, desc = H.step_call(kind, obj, st, step, k0 + k, seed)
        if probs:
            sym, det = probs[0]
            return sym, dict(det, call=desc)
    return None


def copy_by(route, obj):
    if route == "deepcopy":
        return copy.deepcopy(obj)
    if route == "pickle":
        return pickle.loads(pickle.dumps(obj))
    buf = io.BytesIO()
    torch.save(obj, buf)
    buf.seek(0)
    return torch.load(buf, weights_only=False)


def own_variants(kind, cfg):
    """(name, training, thunk) - thunk() returns the copied child to be called."""
    for training in (True, False):
        for route in ("deepcopy", "pickle", "torch.save"):
            for nest in ("alone", "in-Sequential", "attribute-of-model"):
                def thunk(training=training, route=route, nest=nest):
                    layer = make(kind, cfg)
                    outer = {"alone": layer, "in-Sequential": torch.nn.Sequential(layer),
                             "attribute-of-model": Model(layer)}[nest]
                    outer.train(training)
                    c = copy_by(route, outer)
                    return {"alone": c, "in-Sequential": c[0] if nest == "in-Sequential" else None,
                            "attribute-of-model": getattr(c, "layer", None)}[nest]

                yield f"{'train' if training else 'eval'}+{route}+{nest}", training, thunk


def guard_variants(kind, cfg, seed):
    st = state_of(kind, cfg)

    def used(o):
        H.step_call(kind, o, dict(st, training=o.training), (2, 2, True, None), 3, seed)

    gen = guards.lifecycle_variants(lambda: make(kind, cfg), used)
    while True:
        try:
            name, obj = next(gen)
        except StopIteration:
            return
        except guards.GuardViolation as e:
            yield "guards", True, e
            return
        yield "guards:" + name, True, obj


def judge(kind, cfg, name, training, thing, seed):
    """Returns None or (symptom, detail)."""
    if isinstance(thing, Exception):
        return "lifecycle-guard", {"error": str(thing)}
    try:
        obj = thing() if callable(thing) and not isinstance(thing, torch.nn.Module) else thing
        return exercise(kind, obj, state_of(kind, cfg, training), seed)
    except Exception as e:  # noqa: BLE001 - copying and calling a module are legal operations
        return "raises", {"type": type(e).__name__, "error": str(e)[-300:]}


def all_variants(kind, cfg, seed):
    yield from guard_variants(kind, cfg, seed)
    yield from own_variants(kind, cfg)


def file(ctx, kind, cfg, name, training, seed, bad):
    sym, det = bad
    ctx.violation({"api": kind, "symptom": "lifecycle: " + sym, "variant": name.split("+")[1] if "+" in name and
                   not name.startswith("guards") else name, "training": training,
                   "nested": name.rsplit("+", 1)[-1] if name.count("+") == 2 else "alone",
                   "falsy_config": CONFIGS[kind][cfg][2]},
                  {"part": "life", "kind": kind, "cfg": cfg, "variant": name, "seed": seed},
                  dict(det, constructor_args=list(CONFIGS[kind][cfg][0])))


def life_pass(ctx, kind, seed):
    for cfg in range(len(CONFIGS[kind])):
        # the fresh object itself, in both modes: the reference the variants are held to
        for training in (True, False):
            o = make(kind, cfg)
            o.train(training)
            bad = judge(kind, cfg, "fresh", training, o, seed)
            ctx.case(1, 1)
            if bad:
                file(ctx, kind, cfg, "fresh", training, seed, bad)
        for name, training, thing in all_variants(kind, cfg, seed):
            ctx.case(1, 1)
            ctx.count("lifecycle_variants_called")
            bad = judge(kind, cfg, name, training, thing, seed)
            if bad:
                file(ctx, kind, cfg, name, training, seed, bad)
            else:
                ctx.outcome(["life", kind, cfg, name])
    if kind == "RandomShift":
        ctx.sample({"api": "RandomShift", "kind": "lifecycle variant", "constructor_args": [0.0, "constant", 0.0],
                    "variant": "eval+deepcopy+in-Sequential",
                    "expected": "the copied child returns its input unchanged (evaluation mode)"})


def replay(ctx, case):
    ctx.case(1, 1)
    kind, cfg, seed = case["kind"], case["cfg"], case["seed"]
    if case["variant"] == "fresh":
        for training in (True, False):
            o = make(kind, cfg)
            o.train(training)
            bad = judge(kind, cfg, "fresh", training, o, seed)
            if bad:
                file(ctx, kind, cfg, "fresh", training, seed, bad)
        return
    for name, training, thing in all_variants(kind, cfg, seed):
        if name == case["variant"]:
            bad = judge(kind, cfg, name, training, thing, seed)
            if bad:
                file(ctx, kind, cfg, name, training, seed, bad)
