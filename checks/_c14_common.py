"""Helpers of C14: synthetic corpora on tmpfs whose every cell identifies its utterance, and the
row-by-row collation checks (plain lists; no library code involved in the expectations)."""

import os
import shutil

import torch

from pydrobert.torch import config

PAD = config.INDEX_PAD_VALUE
NF = 2  # filters


def filler(seed, *k):
    """don't-care part of the stored values (the only thing VERIF_SEED changes)"""
    x = seed * 7919 + 17
    for j, v in enumerate(k):
        x = (x * 31 + (v + 1) * (j + 3)) % 1000003
    return x % 4


class Corpus:
    """n utterances "u0".."u<n-1>" with feature lengths ``lens``; the reference of an utterance with T
    frames has max(1, 4 - T) tokens (so bucketing by the wrong length shows).  Cell codes:
    feat[t][f] = 1000 (i+1) + 10 t + f + filler/4   (never 0, the feature pad value)
    ali[t]     = 10 (i+1) + t                        (never the index pad value)
    ref[r]     = (100 (i+1) + 10 filler + r, r, r+1)"""

    def __init__(self, lens, seed):
        self.lens = tuple(lens)
        self.n = len(self.lens)
        self.ids = ["u%d" % i for i in range(self.n)]
        self.feat, self.ali, self.ref2, self.ref1, self.rlens = [], [], [], [], []
        for i, T in enumerate(self.lens):
            R = max(1, 4 - T)
            self.feat.append([[1000.0 * (i + 1) + 10 * t + f + 0.25 * filler(seed, i, t, f) for f in range(NF)]
                              for t in range(T)])
            self.ali.append([10 * (i + 1) + t for t in range(T)])
            self.ref2.append([[100 * (i + 1) + 10 * filler(seed, i, r) + r, r, r + 1] for r in range(R)])
            self.ref1.append([row[0] for row in self.ref2[-1]])
            self.rlens.append(R)
        self._dirs = {}

    def name(self):
        return "_".join(map(str, self.lens)) or "empty"

    def write(self, root, variant):
        """variant A: feat/ ali/ ref/ (2-D refs with segments); B: feat/ ref/ (1-D refs), no ali;
        C: feat/ only."""
        key = (root, variant)
        if key in self._dirs:
            return self._dirs[key]
        d = os.path.join(root, "%s-%s" % (variant, self.name()))
        subs = {"A": ("feat", "ali", "ref"), "B": ("feat", "ref"), "C": ("feat",)}[variant]
        for s in subs:
            os.makedirs(os.path.join(d, s), exist_ok=True)
        for i, u in enumerate(self.ids):
            torch.save(torch.tensor(self.feat[i], dtype=torch.float32), os.path.join(d, "feat", u + ".pt"))
            if "ali" in subs:
                torch.save(torch.tensor(self.ali[i], dtype=torch.long), os.path.join(d, "ali", u + ".pt"))
            if "ref" in subs:
                r = self.ref2[i] if variant == "A" else self.ref1[i]
                torch.save(torch.tensor(r, dtype=torch.long), os.path.join(d, "ref", u + ".pt"))
        self._dirs[key] = d
        return d

    def refrows(self, i, ref2d):
        return self.ref2[i] if ref2d else self.ref1[i]


class Scratch:
    def __init__(self, tag):
        self.parent = "/dev/shm/verif-%d" % os.getpid()
        self.root = os.path.join(self.parent, tag)

    def __enter__(self):
        os.makedirs(self.root, exist_ok=True)
        return self.root

    def __exit__(self, *exc):
        shutil.rmtree(self.root, ignore_errors=True)
        try:
            os.rmdir(self.parent)
        except OSError:
            pass
        return False


def canon(batch):
    """a batch as nested lists (exact comparison of two deliveries)"""
    out = []
    for x in batch:
        if isinstance(x, torch.Tensor):
            out.append([str(x.dtype), list(x.shape), x.tolist()])
        elif x is None:
            out.append(None)
        else:
            out.append(list(x))
    return out


def _bf(x, batch_first):
    return x if batch_first else x.transpose(0, 1)


def _padded_rows(name, ten, sizes, stored, pad, batch_first):
    """ten: padded tensor; returns symptom or None"""
    if ten.dim() < 2:
        return "wrong-shape"
    t = _bf(ten, batch_first)
    if t.size(0) != len(sizes) or t.size(1) != (max(sizes) if sizes else 0):
        return "wrong-shape"
    rows = t.tolist()
    for j, row in enumerate(rows):
        k = sizes[j]
        if row[:k] != stored[j]:
            return name + "-content-differs-from-stored"
        for cell in row[k:]:
            flat = cell if isinstance(cell, list) else [cell]
            if any(v != pad for v in flat):
                return name + "-padding-not-pad-value"
    return None


def view(variant, tokens_only):
    """what a directory variant makes available: (alignments, references, references are 2-D)"""
    return {"A": (True, True, not tokens_only), "B": (False, True, False), "C": (False, False, False)}[variant]


def check_spect_batch(batch, corpus, fl, ali_data, ref_data, ref2d):
    """fl: dict(sort_batch, batch_first, suppress_alis, suppress_uttids); ali_data/ref_data: whether every
    utterance of the batch has an alignment / a reference (else the field must be None).
    Returns (utterance indices in row order, symptom or None)."""
    has_alis, has_ids = not fl["suppress_alis"], not fl["suppress_uttids"]
    if not isinstance(batch, tuple) or len(batch) != 4 + has_alis + has_ids:
        return None, "wrong-arity"
    batch = list(batch)
    feats = batch.pop(0)
    alis = batch.pop(0) if has_alis else None
    refs, feat_sizes, ref_sizes = batch[0], batch[1], batch[2]
    uttids = batch[3] if has_ids else None
    bf = fl["batch_first"]
    if not isinstance(feats, torch.Tensor) or feats.dim() != 3 or not isinstance(feat_sizes, torch.Tensor):
        return None, "wrong-shape"
    if feats.dtype != torch.float32:
        return None, "feats-dtype-changed"
    fsz = feat_sizes.tolist()
    rows = _bf(feats, bf)
    N = rows.size(0)
    if len(fsz) != N or N == 0:
        return None, "wrong-shape"
    first = rows[:, 0, 0].tolist()
    idx = [int(v // 1000) - 1 for v in first]
    if any(not (0 <= i < corpus.n) for i in idx):
        return None, "unknown-utterance"
    if fsz != [corpus.lens[i] for i in idx]:
        return idx, "feat-size-not-the-stored-length"
    why = _padded_rows("feats", feats, fsz, [corpus.feat[i] for i in idx], 0.0, bf)
    if why:
        return idx, why
    if has_alis:
        if ali_data:
            if not isinstance(alis, torch.Tensor):
                return idx, "alis-missing"
            why = _padded_rows("alis", alis, fsz, [corpus.ali[i] for i in idx], PAD, bf)
            if why:
                return idx, why
        elif alis is not None:
            return idx, "alis-invented"
    if not ref_data:
        if refs is not None or ref_sizes is not None:
            return idx, "refs-invented"
    else:
        if not isinstance(refs, torch.Tensor) or not isinstance(ref_sizes, torch.Tensor):
            return idx, "refs-missing"
        rsz = ref_sizes.tolist()
        if rsz != [corpus.rlens[i] for i in idx]:
            return idx, "ref-size-not-the-stored-length"
        if refs.dim() != (3 if ref2d else 2):
            return idx, "wrong-shape"
        why = _padded_rows("refs", refs, rsz, [corpus.refrows(i, ref2d) for i in idx], PAD, bf)
        if why:
            return idx, why
    if has_ids:
        if not isinstance(uttids, tuple) or list(uttids) != [corpus.ids[i] for i in idx]:
            return idx, "uttid-detached-from-row"
    if fl["sort_batch"] and any(a < b for a, b in zip(fsz, fsz[1:])):
        return idx, "batch-not-sorted-by-length"
    return idx, None


def check_lang_batch(batch, corpus, fl, ref2d):
    """fl: dict(sort_batch, batch_first, suppress_uttids)"""
    has_ids = not fl["suppress_uttids"]
    if not isinstance(batch, tuple) or len(batch) != 2 + has_ids:
        return None, "wrong-arity"
    refs, ref_sizes = batch[0], batch[1]
    bf = fl["batch_first"]
    if not isinstance(refs, torch.Tensor) or not isinstance(ref_sizes, torch.Tensor):
        return None, "wrong-shape"
    want_dim = 3 if ref2d else 2
    if refs.dim() != want_dim:
        return None, "wrong-shape"
    rows = _bf(refs, bf)
    rsz = ref_sizes.tolist()
    if rows.size(0) != len(rsz) or not rsz:
        return None, "wrong-shape"
    first = (rows[:, 0, 0] if want_dim == 3 else rows[:, 0]).tolist()
    idx = [int(v // 100) - 1 for v in first]
    if any(not (0 <= i < corpus.n) for i in idx):
        return None, "unknown-utterance"
    if rsz != [corpus.rlens[i] for i in idx]:
        return idx, "ref-size-not-the-stored-length"
    why = _padded_rows("refs", refs, rsz, [corpus.refrows(i, ref2d) for i in idx], PAD, bf)
    if why:
        return idx, why
    if has_ids and (not isinstance(batch[2], tuple) or list(batch[2]) != [corpus.ids[i] for i in idx]):
        return idx, "uttid-detached-from-row"
    if fl["sort_batch"] and any(a < b for a, b in zip(rsz, rsz[1:])):
        return idx, "batch-not-sorted-by-length"
    return idx, None


def check_window_batch(batch, corpus, has_ali, left, right, reverse, suppress_uttids, ref_windows):
    """ref_windows[i] = oracle windows of utterance i (T_i x C x F nested lists)."""
    has_ids = not suppress_uttids
    if not isinstance(batch, tuple) or len(batch) != (4 if has_ids else 2):
        return None, "wrong-arity"
    wins, alis = batch[0], batch[1]
    C = 1 + left + right
    if not isinstance(wins, torch.Tensor) or wins.dim() != 3 or wins.size(1) != C or wins.size(2) != NF:
        return None, "wrong-shape"
    rows = wins.tolist()
    centre = right if reverse else left
    idx, pos = [], 0
    while pos < len(rows):
        i = int(rows[pos][centre][0] // 1000) - 1
        if not (0 <= i < corpus.n):
            return None, "unknown-utterance"
        T = corpus.lens[i]
        if rows[pos: pos + T] != ref_windows[i]:
            return idx + [i], "windows-differ-from-edge-replicated-reference"
        if has_ali:
            if not isinstance(alis, torch.Tensor) or alis.dim() != 1 or alis.numel() != len(rows):
                return idx + [i], "alis-missing"
            if alis[pos: pos + T].tolist() != corpus.ali[i]:
                return idx + [i], "alis-content-differs-from-stored"
        elif alis is not None:
            return idx + [i], "alis-invented"
        idx.append(i)
        pos += T
    if has_ids:
        sizes, uttids = batch[2], batch[3]
        if not isinstance(sizes, torch.Tensor) or sizes.tolist() != [corpus.lens[i] for i in idx]:
            return idx, "window-sizes-wrong"
        if not isinstance(uttids, tuple) or list(uttids) != [corpus.ids[i] for i in idx]:
            return idx, "uttid-detached-from-row"
    return idx, None


def zigzag(ms):
    """fixed non-monotone arrangement of a sorted multiset: largest, smallest, 2nd largest, ..."""
    ms = sorted(ms)
    out = []
    lo, hi = 0, len(ms) - 1
    while lo <= hi:
        out.append(ms[hi])
        hi -= 1
        if lo <= hi:
            out.append(ms[lo])
            lo += 1
    return tuple(out)
