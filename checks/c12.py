"""C12 - data-directory validation, repairs, statistics report, sos/eos (E3 over real directories)."""

import contextlib
import itertools
import os
import random
import shutil
import warnings

import torch

from pydrobert.torch import data
from pydrobert.torch import command_line as CL

from mc.runner import Ctx, h64
from mc.seams import LISTING_POLICIES
from mc.oracles import datadir as O

PROP = "C12"
LEVEL = "model_checking"
RULE = (
    "State = a real data directory on tmpfs (canonical form: sorted listing with dtype, shape and "
    "contents of every stored tensor). Initial states: EVERY single-utterance directory in which the "
    "utterance takes one variant per menu - feature {ok, float64, width+1, 1-D} x alignment {none, ok, "
    "int32, T+1, T+2, T-1, 2-D, float} x reference {none, 1-D, 1-D int32, 1-D empty, 2-D with 0/1/2 rows "
    "whose (start,end) come from the 10-entry boundary menu (111 tensors), 2-D int32 with one row (10)} "
    "(thorough: also T=1, uint8, int32+T+1); two-utterance directories (different T per utterance, so "
    "1-D/2-D references, dtypes and widths get mixed): the feature-variant pairs 4x4 crossed with a "
    "3x3 {clean, repairable, unrepairable} ali/ref context, plus - features ok/ok - the full square of "
    "a reduced ali x ref menu (plain: 50x50 quick, 144x144 thorough; sos/eos: 30x30 quick, 144x144 thorough); per-utterance conditions are independent "
    "of the other utterance except dtype/width/dimensionality agreement and write-back order, which "
    "is what the pair menus cross. Each initial state is explored breadth-first to depth 3 over the "
    "transitions validate(None), validate(fix=0|1|2) for data sets configured plain, with sos/eos, and "
    "(single-utterance states, features ok) tokens_only / suppress_uttids=False; states are de-duplicated by canonical hash. Histories run on ONE long-lived data set "
    "object per initial state: after every validate call (raising or not) its public attributes/params/"
    "transform must be unchanged and - non-plain configurations (with_uttids also carries delta_order=1) - "
    "every item must equal the item of a freshly built data set on the current directory and write_hyp "
    "through it must still strip exactly the configured sos/eos. In every "
    "expanded state all four transitions are compared with spec_valid/spec_repair; in valid states the "
    "report of get-torch-spect-data-dir-info (with and without --strict) is compared with a recount; "
    "depth-0 single-utterance states are also pushed through the command's --strict/--fix k. "
    "Layout spellings: file_prefix {'', 'utt-', 'a'} x file_suffix {'.pt', '', '.feat.pt'} x {default, renamed} "
    "feat/ali/ref sub-directories, 7 utterances whose ids start with prefix characters / end with suffix "
    "characters / are prefixes of one another (ta1, a1, tt, u1, u10, ap, a.feat) and have different T and "
    "tokens, ill-formed decoy files with another prefix/suffix in every sub-directory; initial states = all "
    "clean + each utterance in turn carrying {ali T+1, ali T-1, half-open ref}; the discovered utt_ids "
    "(SpectDataSet and LangDataSet) and every read item must be exactly the planted ones, then the same "
    "exploration (function and command --strict/--fix 0|1|2, info recount). Modes: a slice with every "
    "verdict class (all feature variants, mixed-dtype pairs) re-explored under "
    "torch.set_default_dtype(float64) and under torch.inference_mode (plain and sos/eos data sets). "
    "LISTING ORDER (environment answer): the same slice, six three-utterance directories (clean / repairable / "
    "repairable with tolerance, at every position) and the discovery layouts for two namings are re-explored with "
    "os.listdir / os.scandir answering in each of five non-sorted orders (mc.seams.ListingPolicy: together with the "
    "sorted one, every permutation of a directory with <= 3 entries), verdicts, repairs and reports against the same model. "
    "sos/eos: every token list |x|<=3 over {0,1,2} x stored 1-D / (R,3) (boundaries from a fixed menu incl. -1, 3, 4) x "
    "tokens_only x 8 sos/eos settings (4 of them with ids that collide with boundary values: (3,4), (4,3), sos=-1, eos=-1) x {SpectDataSet, LangDataSet}. A state is non-trivial when it carries >=1 injected defect."
)
ASSUMPTIONS = [
    "small scope: 1-2 utterances, T in {3,4} (thorough also 1), <=2 reference rows, tolerances 0..2",
    "CPU only: condition 1 / repair 1 (CUDA tensors) cannot be exercised on this machine",
    "token and class ids non-negative and different from the sos/eos symbols (7, 8); sos != eos",
    "utterance discovery is modelled as feat ids restricted to ids present in every non-empty ali/ ref/",
    "upcast menu = documented 'bytes or 32-bit integers' (uint8, int32); int8/int16 not explored",
    "statistics are compared only in valid directories with >=1 utterance (the help text promises "
    "nothing for invalid ones)",
    "one SpectDataSet object per initial state is used for every validate call of its exploration (the calls "
    "arrive in breadth-first order while the directory is reset underneath, which is legal because the object "
    "holds no state besides its configuration and the unchanging listing); the command builds its own",
    "total_tokens: with ref/ present but every listed transcript empty both 0 and -1 are accepted "
    "('the sum of R ... (if available, -1 if not)' is ambiguous); such reports are counted",
    "quick tier: non-plain data-set configurations only on directories whose features are ok",
    "layout family: one defect at a time among 7 otherwise clean utterances; decoys are impossible (and not "
    "planted) when prefix and suffix are both empty; sub-directory names without path separators",
    "global torch modes explored: default dtype float64 and inference_mode only (no autocast, no "
    "deterministic-algorithms switch), on a 64-directory slice",
]
BUDGET_S = {"quick": 240, "thorough": 2400}

SOS, EOS = 7, 8
RT_BOUNDS = ((-1, -1), (0, 3), (1, 4), (2, 2), (3, 4), (0, 4), (3, 3))  # (start, end) menu of the round-trip pass
F = 2
FIXES = (None, 0, 1, 2)
LISTINGS = [0]  # directory listings answered by the listing-order seam in this process
MODE = [None]  # global torch mode the current shard runs under (part of sigs and replay cases)
CONFIGS = ("plain", "sos_eos", "tokens_only", "with_uttids")


# =========================================================================================
# menus
# =========================================================================================
def bounds_menu(T):
    return [(-1, -1), (0, T), (2, 2), (1, -1), (-1, 2), (2, 1), (0, T + 1), (0, T + 2), (T, T + 1),
            (T + 1, T + 1)]


FEATS = ("ok", "float64", "width+1", "1-D")
ALIS = ("none", "ok", "int32", "T+1", "T+2", "T-1", "2-D", "float")
ALIS_EXTRA = ("uint8", "int32,T+1")


def refs_full(tier):
    out = [("none",), ("1d",), ("1d-int32",), ("1d-empty",), ("2d", ())]
    out += [("2d", (i,)) for i in range(10)]
    out += [("2d", (i, j)) for i in range(10) for j in range(10)]
    out += [("2d-int32", (i,)) for i in range(10)]
    if tier == "thorough":
        out += [("1d-uint8",), ("2d-int32", (3, 6)), ("2d-int32", (1, 7)), ("2d-uint8", (8,))]
    return out


# indices into the boundary menu: 1 ok, 3 half-open, 6 T+1, 7 T+2, 5 reversed, 4 half-open, 8 (T,T+1)
REFS_PAIR_QUICK = [("none",), ("1d",), ("1d-int32",), ("2d", ()), ("2d", (1,)), ("2d", (3,)), ("2d", (6,)),
                   ("2d", (7,)), ("2d", (5,)), ("2d", (4, 8))]
ALIS_PAIR_QUICK = ("none", "ok", "int32", "T+1", "T-1")
REFS_PAIR_THOROUGH = REFS_PAIR_QUICK + [("1d-empty",), ("2d", (0,)), ("2d", (2,)), ("2d", (8,)), ("2d", (9,)),
                                        ("2d-int32", (6,)), ("2d", (0, 1)), ("2d", (6, 3))]
CONTEXT = [("ok", ("2d", (1,))), ("int32", ("2d", (3,))), ("T-1", ("2d", (1,)))]  # clean / repairable / not


def _rng(seed, *what):
    return random.Random(h64([seed, list(what)]))


def feat_tensor(v, T, rng):
    if v == "1-D":
        return O.tens("float32", [T], [round(rng.uniform(-1, 1), 2) for _ in range(T)])
    w = F + 1 if v == "width+1" else F
    dt = "float64" if v == "float64" else "float32"
    return O.tens(dt, [T, w], [[round(rng.uniform(-1, 1), 2) for _ in range(w)] for _ in range(T)])


def ali_tensor(v, T, rng, classes):
    if v == "none":
        return None
    n = {"T+1": T + 1, "T+2": T + 2, "T-1": T - 1, "int32,T+1": T + 1}.get(v, T)
    vals = [rng.choice(classes) for _ in range(n)]
    if n >= 2 and rng.random() < 0.5:
        vals[1] = vals[0]  # a run, so that segments != counts
    if v == "2-D":
        return O.tens("int64", [n, 1], [[x] for x in vals])
    if v == "float":
        return O.tens("float32", [n], [float(x) for x in vals])
    dt = {"int32": "int32", "int32,T+1": "int32", "uint8": "uint8"}.get(v, "int64")
    return O.tens(dt, [n], vals)


def ref_tensor(v, T, rng, tokens):
    kind = v[0]
    if kind == "none":
        return None
    if kind.startswith("1d"):
        dt = {"1d-int32": "int32", "1d-uint8": "uint8"}.get(kind, "int64")
        if kind == "1d-empty":
            return O.tens("int64", [0], [])
        return O.tens(dt, [2], [rng.choice(tokens), rng.choice(tokens)])
    dt = {"2d-int32": "int32", "2d-uint8": "uint8"}.get(kind, "int64")
    menu = bounds_menu(T)
    first = rng.choice(tokens)
    rows = []
    for n, i in enumerate(v[1]):
        # second row: same token on even menu sums (so that one token mixes bounded/unbounded rows)
        tok = first if (n == 0 or sum(v[1]) % 2 == 0) else rng.choice(tokens)
        s, e = menu[i]
        if dt == "uint8" and (s < 0 or e < 0):
            s, e = 0, T + 1
        rows.append([tok, s, e])
    return O.tens(dt, [len(rows), 3], rows)


UTTS = {"a": (3, [0, 1, 2], [0, 1, 2]), "b": (4, [0, 1, 10], [1, 2, 12]),  # T, ali classes, ref tokens
        "c": (3, [0, 2, 5], [2, 3, 3])}  # third utterance: only in the listing-order triples


def build_state(spec, seed):
    """spec: list of (uid, T, feat variant, ali variant, ref variant) -> flat directory dict."""
    d = {}
    for uid, T, fv, av, rv in spec:
        rv = tuple(rv[:1]) + tuple(tuple(x) if isinstance(x, list) else x for x in rv[1:])
        _, classes, tokens = UTTS[uid]
        d["feat/%s.pt" % uid] = feat_tensor(fv, T, _rng(seed, uid, "feat", fv))
        a = ali_tensor(av, T, _rng(seed, uid, "ali", av), classes)
        if a is not None:
            d["ali/%s.pt" % uid] = a
        r = ref_tensor(rv, T, _rng(seed, uid, "ref", list(rv)), tokens)
        if r is not None:
            d["ref/%s.pt" % uid] = r
    return {p: from_tensor(to_tensor(t)) for p, t in d.items()}  # canonical (float32 read-back values)


def is_defect(spec):
    for _, _, fv, av, rv in spec:
        if fv != "ok" or av not in ("none", "ok"):
            return True
        if rv[0] not in ("none", "1d", "1d-empty") and not (rv[0] == "2d" and all(i in (0, 1, 2) for i in rv[1])):
            return True
    return False


def single_specs(tier):
    alis = ALIS + (ALIS_EXTRA if tier == "thorough" else ())
    Ts = (3, 1) if tier == "thorough" else (3,)
    return [[("a", T, fv, av, rv)] for T in Ts for fv in FEATS for av in alis for rv in refs_full(tier)]


def pair_specs(tier, config="plain"):
    Ta, Tb = UTTS["a"][0], UTTS["b"][0]
    out = []
    for fa, fb in itertools.product(FEATS, FEATS):
        for (aa, ra), (ab, rb) in itertools.product(CONTEXT, CONTEXT):
            out.append([("a", Ta, fa, aa, ra), ("b", Tb, fb, ab, rb)])
    alis = ALIS if tier == "thorough" else ALIS_PAIR_QUICK
    refs = REFS_PAIR_THOROUGH if tier == "thorough" else REFS_PAIR_QUICK
    if config != "plain" and tier == "quick":
        alis = ("ok", "int32", "T-1")  # the view only concerns references
    per = list(itertools.product(alis, refs))
    for (aa, ra), (ab, rb) in itertools.product(per, per):
        out.append([("a", Ta, "ok", aa, ra), ("b", Tb, "ok", ab, rb)])
    return out


def initial_specs(kind, config, tier):
    """The initial states of one (kind, data-set configuration) family."""
    specs = single_specs(tier) if kind == "singles" else pair_specs(tier, config)
    if config in ("tokens_only", "with_uttids") or (config != "plain" and tier == "quick" and kind == "singles"):
        # feature variants do not interact with the reference view: features ok only
        specs = [sp for sp in specs if all(u[2] == "ok" for u in sp)]
    return specs


# =========================================================================================
# real directory <-> canonical state
# =========================================================================================
def to_tensor(t):
    return torch.tensor(t["data"], dtype=getattr(torch, t["dtype"])).reshape(t["shape"])


def from_tensor(t):
    return O.tens(str(t.dtype)[6:], list(t.shape), t.tolist())


DEFAULT_SUBDIRS = {"feat": "feat", "ali": "ali", "ref": "ref"}


class Dir:
    """A real directory whose content follows the requested state (only differing files are rewritten).

    Snapshots compare raw file bytes with the bytes last seen and only deserialise files whose bytes
    changed (identical bytes => identical tensor; anything else is loaded and compared by value).

    States are always keyed canonically ("feat/<utt>.pt", "decoy-feat/<file name>"); `layout`
    ({"prefix", "suffix", "subdirs"}) says how the keys are spelt on disk."""

    def __init__(self, root, layout=None):
        self.root = root
        self.layout = layout
        self.content = None
        self.raw = {}
        self.out = root + ".info"

    def subdir(self, kind):
        return (self.layout["subdirs"] if self.layout else DEFAULT_SUBDIRS)[kind]

    def real(self, key):
        if self.layout is None:
            return key
        sd, fn = key.split("/")
        if sd.startswith("decoy-"):
            return self.subdir(sd[6:]) + "/" + fn
        return self.subdir(sd) + "/" + self.layout["prefix"] + fn[: -len(O.SUFFIX)] + self.layout["suffix"]

    def ensure(self, state):
        if self.content == state:
            return
        if self.content is None:
            shutil.rmtree(self.root, ignore_errors=True)
            self.content, self.raw = {}, {}
        featdir = os.path.join(self.root, self.subdir("feat"))
        os.makedirs(featdir, exist_ok=True)
        for path in list(self.content):
            if path not in state:
                os.remove(os.path.join(self.root, self.real(path)))
                self.raw.pop(path, None)
                sd = os.path.dirname(os.path.join(self.root, self.real(path)))
                if not os.listdir(sd) and sd != featdir:
                    os.rmdir(sd)
        for path, t in state.items():
            if self.content.get(path) != t:
                p = os.path.join(self.root, self.real(path))
                os.makedirs(os.path.dirname(p), exist_ok=True)
                torch.save(to_tensor(t), p)
                with open(p, "rb") as f:
                    self.raw[path] = f.read()
        self.content = dict(state)

    def snapshot(self):
        out, raw = {}, {}
        inverse = {self.real(k): k for k in (self.content or {})}
        for sd in sorted(os.listdir(self.root)):
            for fn in sorted(os.listdir(os.path.join(self.root, sd))):
                rp = sd + "/" + fn
                path = inverse.get(rp, rp if self.layout is None else "stray-" + rp)
                with open(os.path.join(self.root, sd, fn), "rb") as f:
                    b = f.read()
                raw[path] = b
                if self.raw.get(path) == b and path in self.content:
                    out[path] = self.content[path]
                    continue
                t = torch.load(os.path.join(self.root, sd, fn))
                if isinstance(t, torch.Tensor):
                    out[path] = from_tensor(t)
                else:
                    out[path] = {"dtype": "not-a-tensor", "shape": [], "data": repr(t)}
        self.content, self.raw = out, raw
        return out

    def ds_kwargs(self):
        if self.layout is None:
            return {}
        return dict(file_prefix=self.layout["prefix"], file_suffix=self.layout["suffix"],
                    feat_subdir=self.subdir("feat"), ali_subdir=self.subdir("ali"), ref_subdir=self.subdir("ref"))

    def cli_args(self):
        if self.layout is None:
            return []
        return ["--file-prefix=" + self.layout["prefix"], "--file-suffix=" + self.layout["suffix"],
                "--feat-subdir", self.subdir("feat"), "--ali-subdir", self.subdir("ali"),
                "--ref-subdir", self.subdir("ref")]

    def close(self):
        shutil.rmtree(self.root, ignore_errors=True)
        shutil.rmtree(self.root + ".hyp", ignore_errors=True)
        if os.path.exists(self.out):
            os.remove(self.out)


def scratch(tag):
    base = "/dev/shm/verif-%d" % os.getpid()
    os.makedirs(base, exist_ok=True)
    return os.path.join(base, "c12-" + tag)


def make_ds(D, config):
    if config == "sos_eos":
        params = data.SpectDataParams(sos=SOS, eos=EOS)
    elif config == "with_uttids":
        params = data.SpectDataParams(delta_order=1)  # a feature transform as well as utterance ids
    else:
        params = None
    return data.SpectDataSet(D.root, params=params, warn_on_missing=False, suppress_alis=False,
                             tokens_only=(config == "tokens_only"), suppress_uttids=(config != "with_uttids"),
                             **D.ds_kwargs())


# ---- one long-lived data set object per exploration (histories on ONE object) -----------------
PUBLIC_ATTRS = ("data_dir", "feat_subdir", "ali_subdir", "ref_subdir", "file_prefix", "file_suffix",
                "suppress_alis", "suppress_uttids", "tokens_only", "sos", "eos", "has_ali", "has_ref", "utt_ids")
PARAM_ATTRS = ("sos", "eos", "delta_order", "do_mvn", "subset_ids")


def public_config(ds):
    cfg = {a: getattr(ds, a, "<missing>") for a in PUBLIC_ATTRS}
    for a in PARAM_ATTRS:
        cfg["params." + a] = getattr(ds.params, a, "<missing>")
    cfg["utt_ids"] = list(cfg["utt_ids"])
    return cfg


class Obj:
    """The caller's SpectDataSet, used for every validate call of one exploration."""

    def __init__(self, D, config, init):
        self.D, self.config = D, config
        D.ensure(init)
        self.renew(init)

    def renew(self, current):
        """(re)build the object on the directory as it is now (`current` = its content)."""
        self.init = current
        self.ds = make_ds(self.D, self.config)
        self.cfg0 = public_config(self.ds)
        self.transform0 = self.ds.transform
        self.calls = []  # [(state, fix)] made on this object


def read_all(ds):
    out = []
    for i in range(len(ds)):
        try:
            out.append(ds[i])
        except Exception as e:  # noqa
            out.append(("<raises>", type(e).__name__))
    return out


def same_item(x, y):
    if isinstance(x, tuple) != isinstance(y, tuple):
        return False
    if not isinstance(x, tuple):
        x, y = (x,), (y,)
    if len(x) != len(y):
        return False
    for a, b in zip(x, y):
        if isinstance(a, torch.Tensor) or isinstance(b, torch.Tensor):
            if not (isinstance(a, torch.Tensor) and isinstance(b, torch.Tensor)):
                return False
            if a.dtype != b.dtype or a.shape != b.shape or not torch.equal(a, b):
                return False
        elif a != b:
            return False
    return True


def show_item(x):
    if isinstance(x, tuple):
        return [show_item(v) for v in x]
    if isinstance(x, torch.Tensor):
        return {"dtype": str(x.dtype)[6:], "shape": list(x.shape), "data": x.tolist()}
    return x


def check_object(ctx, obj, fix, raised):
    """After a validate call through the long-lived object: (i) public configuration unchanged,
    (ii) every item equals the item of a freshly built data set on the current directory,
    (iii) write_hyp through it still strips exactly the configured sos/eos. Returns True when intact."""
    D, config, ds = obj.D, obj.config, obj.ds
    ctx.case(1)
    ctx.count("object_checks")
    base = {"api": "validate_spect_data_set", "config": config, "fix": "none" if fix is None else fix,
            "symptom": "data-set-object-changed-by-validation", "after": "raise" if raised else "success"}
    case = {"kind": "object-history", "layout": D.layout, "mode": MODE[0], "config": config, "init": obj.init,
            "calls": [{"state": st, "fix": fx} for st, fx in obj.calls]}
    found = []
    cfg = public_config(ds)
    diff = sorted(a for a in cfg if cfg[a] != obj.cfg0[a])
    if ds.transform is not obj.transform0:
        diff.append("transform")
    if diff:
        found.append((dict(base, what="attributes", attrs=",".join(diff)),
                      {"before": {a: obj.cfg0.get(a, "transform") for a in diff},
                       "after": {a: cfg.get(a, repr(ds.transform)) for a in diff}}))
    if config != "plain" or diff:
        got, want = read_all(ds), read_all(make_ds(D, config))
        bad = [i for i in range(max(len(got), len(want)))
               if i >= len(got) or i >= len(want) or not same_item(got[i], want[i])]
        if bad:
            i = bad[0]
            found.append((dict(base, what="item"),
                          {"index": i, "fresh_data_set": show_item(want[i]) if i < len(want) else None,
                           "long_lived": show_item(got[i]) if i < len(got) else None}))
        ctx.outcome(["object-read", config, [len(x) if isinstance(x, tuple) else 1 for x in want]])
        hyp_dir = D.root + ".hyp"
        try:
            ds.write_hyp("h", torch.tensor([SOS, 1, EOS, 2]), hyp_dir)
            st = torch.load(os.path.join(hyp_dir, "h.pt")).tolist()
        except Exception as e:  # noqa
            st = ["<raises>", type(e).__name__]
        want_h = O.spec_strip([SOS, 1, EOS, 2], *((SOS, EOS) if config == "sos_eos" else (None, None)))
        if st != want_h:
            found.append((dict(base, what="write_hyp"), {"expected": want_h, "stored": st}))
    for sig, detail in found:
        ctx.violation(sig, case, detail)
    return not found


def decorate(t):
    """what reading a stored reference with sos/eos yields (for classifying F21 only)."""
    if len(t["shape"]) == 1:
        return O.tens(t["dtype"], [t["shape"][0] + 2], [SOS] + list(t["data"]) + [EOS])
    neg = 255 if t["dtype"] == "uint8" else -1  # full_like(..., -1) wraps in an unsigned tensor
    rows = [[SOS, neg, neg]] + [list(r) for r in (t["data"] if t["shape"][0] else [])] + [[EOS, neg, neg]]
    return O.tens(t["dtype"], [len(rows), 3], rows)


def drop_segments(t):
    if len(t["shape"]) == 2 and t["shape"][1] == 3:
        return O.tens(t["dtype"], [t["shape"][0]], [r[0] for r in (t["data"] if t["shape"][0] else [])])
    return t


def has_empty_ref(state):
    return any(p.startswith("ref/") and t["shape"][0] == 0 for p, t in state.items())


def diff_paths(x, y):
    return sorted(p for p in set(x) | set(y) if x.get(p) != y.get(p))


# =========================================================================================
# one transition against the reference model
# =========================================================================================
def run_validate(D, config, fix, entry, ds=None):
    """returns (error or None, warned, report or None)."""
    err, report = None, None
    with warnings.catch_warnings(record=True) as wl:
        warnings.simplefilter("always")
        try:
            if entry == "function":
                data.validate_spect_data_set(ds if ds is not None else make_ds(D, config), fix)
            else:
                args = [D.root, D.out] + D.cli_args() + (["--strict"] if fix is None else ["--fix", str(fix)])
                rc = CL.get_torch_spect_data_dir_info(args)
                if rc:
                    err = ("exit-code", str(rc))
                else:
                    report = read_report(D.out)
        except ValueError as e:
            err = ("ValueError", str(e)[-300:])
        except Exception as e:  # noqa
            err = (type(e).__name__, str(e)[-300:])
    warned = any(issubclass(w.category, UserWarning) for w in wl)
    return err, warned, report


def read_report(path):
    table, lines = {}, []
    with open(path) as f:
        for line in f:
            lines.append(line)
            k, v = line.split()
            table[k] = int(v)
    table["__sorted__"] = int(lines == sorted(lines) and len(table) == len(lines))
    return table


def eval_transition(ctx, D, state, config, fix, entry="function", after_fix=False, obj=None):
    """Applies one transition to `state`; returns the state actually reached."""
    D.ensure(state)
    conds = O.violated_conditions(state)
    valid = not conds
    if obj is not None:
        obj.calls.append((state, fix))
    err, warned, report = run_validate(D, config, fix, entry, ds=obj.ds if obj is not None else None)
    post = D.snapshot()
    if obj is not None and not check_object(ctx, obj, fix, err is not None):
        obj.renew(post)  # report each corruption once, from a clean object
    ctx.transitions += 1
    ctx.traces += 1
    ctx.case(1)
    fx = "none" if fix is None else fix
    base = {"api": "validate_spect_data_set" if entry == "function" else "get-torch-spect-data-dir-info",
            "config": config, "fix": fx}
    case = {"kind": "transition", "layout": D.layout, "mode": MODE[0], "state": state, "config": config, "fix": fix,
            "entry": entry}
    if MODE[0]:
        base["mode"] = MODE[0]
    if D.layout:
        base["layout"] = "non-default"
    changed = diff_paths(state, post)
    found = []  # (sig, detail)
    raised = err is not None
    if raised and err[0] not in ("ValueError", "exit-code"):
        found.append((dict(base, symptom="raises-non-ValueError", type=err[0], empty_ref=has_empty_ref(state)),
                      {"error": err, "spec_valid": valid}))
        ctx.outcome(["exc", err[0]])
    elif fix is None:
        if raised != (not valid):
            found.append((dict(base, symptom="rejects-valid" if raised else "accepts-invalid",
                               conds=",".join(conds), after_successful_fix=after_fix),
                          {"violated_conditions": conds, "error": err}))
        if changed:
            found.append((dict(base, symptom="strict-validation-modifies-directory"), {"changed": changed}))
        ctx.outcome(["strict", raised, conds])
        if not raised and report is not None and valid and O.utterances(state):
            compare_report(ctx, report, state, case, via="--strict")
    else:
        exp = O.spec_repair(state, fix)
        if exp is None:
            if not raised:
                found.append((dict(base, symptom="fix-accepts-unrepairable", conds=",".join(conds)),
                              {"violated_conditions": conds, "changed": changed}))
            adm = O.admissible_after_raise(state, fix)
            bad = [p for p in changed if p not in adm or post.get(p) not in adm[p]]
            if bad:
                found.append((dict(base, symptom="file-neither-unchanged-nor-repaired"),
                              {"files": bad, "post": {p: post.get(p) for p in bad}}))
            ctx.outcome(["fix-raise", fix, conds, len(changed)])
        else:
            if raised:
                found.append((dict(base, symptom="fix-rejects-repairable", conds=",".join(conds)),
                              {"violated_conditions": conds, "error": err}))
                adm = O.admissible_after_raise(state, fix)
                bad = [p for p in changed if p not in adm or post.get(p) not in adm[p]]
                if bad:
                    found.append((dict(base, symptom="file-neither-unchanged-nor-repaired"),
                                  {"files": bad, "post": {p: post.get(p) for p in bad}}))
            elif post != exp:
                bad = diff_paths(exp, post)
                sym = "not-repaired" if post == state else "wrong-repair"
                found.append((dict(base, symptom=sym),
                              {"files": bad, "expected": {p: exp.get(p) for p in bad},
                               "observed": {p: post.get(p) for p in bad}}))
            elif changed and not warned:
                found.append((dict(base, symptom="repair-without-warning"), {"changed": changed}))
            if not raised and post == exp and report is not None and O.utterances(exp):
                compare_report(ctx, report, exp, case, via="--fix")
            ctx.outcome(["fix-ok", fix, conds, sorted(p.split("/")[0] for p in changed)])
    if found and entry == "cli" and fix == 0 and post == state and (err is None or err[0] != "ValueError"):
        # one root cause: the command treats tolerance 0 as "no validation requested"
        found = [(dict(base, symptom="tolerance-0-skips-validation"),
                  {"deviations": [f[0]["symptom"] for f in found], "violated_conditions": conds, "error": err})]
    if found and config == "with_uttids" and post == state and raised and "values to unpack" in err[1]:
        # one root cause: the validator unpacks the data set's item as (feat, ali, ref)
        found = [(dict(base, symptom="cannot-unpack-item-of-data-set-yielding-uttids"),
                  {"deviations": [f[0]["symptom"] for f in found], "violated_conditions": conds, "error": err})]
    elif found and entry == "function" and config in ("sos_eos", "tokens_only") and not any(
            f[0]["symptom"] == "raises-non-ValueError" for f in found):
        if consistent_with_view(state, view_of(state, config), fix, raised, post):
            # one root cause: the decorated item (sos/eos added, or segments dropped) is validated and
            # written back instead of the stored tensor
            found = [(dict(base, symptom="validates-the-data-set-view-not-the-stored-tensors",
                           effect="stored-reference-rewritten-from-view" if post != state else "verdict-only"),
                      {"deviations": [f[0]["symptom"] for f in found], "violated_conditions": conds,
                       "changed": changed, "observed": {p: post.get(p) for p in changed}})]
    for sig, detail in found:
        ctx.violation(sig, case, detail)
    return post


def view_of(state, config):
    f = decorate if config == "sos_eos" else drop_segments
    return {p: (f(t) if p.startswith("ref/") else t) for p, t in state.items()}


def consistent_with_view(state, view, fix, raised, post):
    """Is the observation what the reference model predicts for the *view* (classification only)?"""
    if set(post) != set(state):
        return False
    if fix is None:
        return post == state and raised == (not O.spec_valid(view))
    exp_v = O.spec_repair(view, fix)
    if exp_v is None:
        if not raised:
            return False
        adm = O.admissible_after_raise(view, fix)
        return all(post[p] in adm[p][1:] for p in diff_paths(state, post))
    if raised:
        return False
    return post == {p: (exp_v[p] if exp_v[p] != view[p] else state[p]) for p in state}


# =========================================================================================
# statistics report
# =========================================================================================
def compare_report(ctx, report, state, case, via):
    exp = O.spec_info(state)
    got = dict(report)
    ordered = got.pop("__sorted__", 1)
    ctx.case(1)
    ctx.outcome(["info", sorted(exp.items())])
    if not ordered:
        ctx.violation({"api": "get-torch-spect-data-dir-info", "symptom": "report-not-sorted"}, case, {"got": got})
    if exp["total_tokens"] == 0 and got.get("total_tokens") == -1:
        # 'the sum of R over the data dir (if available, -1 if not)': with ref/ present but every transcript
        # empty both 0 and -1 are defensible readings; accepted and counted
        ctx.count("total_tokens_-1_accepted_for_all_empty_transcripts")
        got["total_tokens"] = 0
    if got == exp:
        return
    keys = sorted(k for k in set(exp) | set(got) if exp.get(k) != got.get(k))
    classes = sorted(set(k.split("_")[0] if k[-1].isdigit() else k for k in keys))
    # classify the two suspected causes precisely
    empty_seg_tokens = set()
    for p, t in state.items():
        if p.startswith("ref/") and len(t["shape"]) == 2 and t["shape"][0]:
            for tok, s, e in t["data"]:
                if s >= 0 and s == e:
                    empty_seg_tokens.add(tok)
    cause = "other"
    if classes == ["rcount"] and all(int(k.split("_")[1]) in empty_seg_tokens and got.get(k) == -1 for k in keys):
        cause = "empty-segment-counted-as-unbounded"
    ctx.violation({"api": "get-torch-spect-data-dir-info", "symptom": "wrong-report", "keys": ",".join(classes),
                   "cause": cause, "via": via}, case,
                  {"expected": {k: exp.get(k) for k in keys}, "observed": {k: got.get(k) for k in keys}})


def check_info(ctx, D, state):
    """plain and --strict report in a valid state."""
    case = {"kind": "info", "layout": D.layout, "mode": MODE[0], "state": state}
    for flag in ((), ("--strict",)):
        D.ensure(state)
        try:
            rc = CL.get_torch_spect_data_dir_info([D.root, D.out] + D.cli_args() + list(flag))
            rep = read_report(D.out) if not rc else None
        except Exception as e:  # noqa
            ctx.violation({"api": "get-torch-spect-data-dir-info", "symptom": "raises", "type": type(e).__name__,
                           "strict": bool(flag), "empty_ref": has_empty_ref(state)}, case, {"error": str(e)[-300:]})
            continue
        if rep is None:
            ctx.violation({"api": "get-torch-spect-data-dir-info", "symptom": "nonzero-exit", "strict": bool(flag)},
                          case, {"rc": rc})
            continue
        compare_report(ctx, rep, state, case, via="--strict" if flag else "plain")
    post = D.snapshot()
    if post != state:
        ctx.violation({"api": "get-torch-spect-data-dir-info", "symptom": "report-modifies-directory"}, case,
                      {"changed": diff_paths(state, post)})


# =========================================================================================
# breadth-first exploration
# =========================================================================================
def explore_from(ctx, D, init, config, visited, depth=3, cli=False):
    frontier = [(init, False)]
    obj = Obj(D, config, init)
    for level in range(depth):
        nxt = []
        for state, after_fix in frontier:
            hs = h64(state)
            ctx.state(hs)
            if hs in visited:
                continue
            visited.add(hs)
            ctx.count("expanded_states_depth_%d" % level)
            if config == "plain" and not O.violated_conditions(state) and O.utterances(state):
                check_info(ctx, D, state)
            for fix in FIXES:
                post = eval_transition(ctx, D, state, config, fix, after_fix=after_fix, obj=obj)
                hp = h64(post)
                ctx.state(hp)
                if hp != hs:
                    ctx.count("state_changing_transitions")
                    nxt.append((post, fix is not None and O.spec_repair(state, fix) is not None))
            if cli and level == 0:
                for fix in FIXES:
                    eval_transition(ctx, D, state, "plain", fix, entry="cli")
        frontier = nxt


def run_explore(ctx, spec, tier, seed):
    kind, config, part, of = spec["kind"], spec["config"], spec["part"], spec["of"]
    specs = initial_specs(kind, config, tier)
    D = Dir(scratch("%s-%s-%d" % (kind, config, part)))
    visited = set()
    try:
        for i, sp in enumerate(specs):
            if i % of != part:
                continue
            init = build_state(sp, seed)
            ctx.key([config, h64(init)], nontrivial=is_defect(sp))
            if i % 997 == part:
                ctx.sample({"config": config, "variants": sp, "initial_state": init,
                            "spec_valid": O.spec_valid(init),
                            "spec_repair_k1": O.spec_repair(init, 1)})
            cli = kind == "singles" and config == "plain" and (tier == "thorough" or sp[0][2] == "ok")
            explore_from(ctx, D, init, config, visited, cli=cli)
    finally:
        D.close()
        try:
            os.rmdir(os.path.dirname(D.root))
        except OSError:
            pass


# =========================================================================================
# alias / degenerate spellings of the directory layout; global torch modes
# =========================================================================================
PREFIXES = ("", "utt-", "a")
SUFFIXES = (".pt", "", ".feat.pt")
CUSTOM_SUBDIRS = {"feat": "fbank", "ali": "pdf", "ref": "txt"}
# ids starting with characters of a prefix, ending with characters of a suffix, prefixes of one another
LAYOUT_IDS = ("ta1", "a1", "tt", "u1", "u10", "ap", "a.feat")
DECOY_NAMES = ("zz-a1.pt", "utt-a1.bak", "b1.feat.txt")
LAYOUT_DEFECTS = (None, ("ali", "T+1"), ("ali", "T-1"), ("ref", 3))  # repairable k>=1 / never / any k


def layout_state(layout, defect_at, defect, seed):
    d = {}
    for i, uid in enumerate(LAYOUT_IDS):
        T = 2 + i
        av, rv = "ok", ("2d", (1,))
        if defect is not None and i == defect_at:
            if defect[0] == "ali":
                av = defect[1]
            else:
                rv = ("2d", (defect[1],))
        d["feat/%s.pt" % uid] = feat_tensor("ok", T, _rng(seed, uid, "lfeat"))
        d["ali/%s.pt" % uid] = ali_tensor(av, T, _rng(seed, uid, "lali", av), [0, 1, 2])
        d["ref/%s.pt" % uid] = ref_tensor(rv, T, _rng(seed, uid, "lref"), [i])
    for kind in ("feat", "ali", "ref"):
        for name in DECOY_NAMES:
            if not (name.startswith(layout["prefix"]) and name.endswith(layout["suffix"])):
                d["decoy-%s/%s" % (kind, name)] = O.tens("float32", [2], [0.5, -0.5])  # ill-formed on purpose
    return {p: from_tensor(to_tensor(t)) for p, t in d.items()}


def check_discovery(ctx, D, state):
    """The data set must list exactly the planted utterances and read exactly their files."""
    D.ensure(state)
    want = O.utterances(state)
    case = {"kind": "discovery", "layout": D.layout, "mode": MODE[0], "state": state}
    sig = {"symptom": "discovered-ids-differ-from-planted", "layout": "non-default" if D.layout else "default"}
    ctx.case(1)
    try:
        ds = data.SpectDataSet(D.root, warn_on_missing=False, suppress_alis=False, tokens_only=False,
                               suppress_uttids=False, **D.ds_kwargs())
        got = list(ds.utt_ids)
    except Exception as e:  # noqa
        ds, got = None, ["<raises>", type(e).__name__, str(e)[-200:]]
    ctx.outcome(["discovery", want])
    if got != want:
        ctx.violation(dict(sig, api="SpectDataSet.utt_ids"), case, {"planted": want, "discovered": got})
    elif ds is not None:
        for i, uid in enumerate(want):
            try:
                item = ds[i]
                exp = (to_tensor(state["feat/%s.pt" % uid]),
                       to_tensor(state["ali/%s.pt" % uid]) if O.subdir(state, "ali") else None,
                       to_tensor(state["ref/%s.pt" % uid]) if O.subdir(state, "ref") else None, uid)
                ok = same_item(item, exp)
            except Exception as e:  # noqa
                ok, item = False, ("<raises>", type(e).__name__, str(e)[-200:])
            if not ok:
                ctx.violation({"api": "SpectDataSet.__getitem__", "symptom": "item-is-not-the-planted-utterance",
                               "layout": sig["layout"]}, case, {"utt": uid, "observed": show_item(item)})
                break
    refs = sorted(O.subdir(state, "ref"))
    if refs:
        ctx.case(1)
        try:
            kw = D.ds_kwargs()
            got = list(data.LangDataSet(os.path.join(D.root, D.subdir("ref")), file_prefix=kw.get("file_prefix", ""),
                                        file_suffix=kw.get("file_suffix", ".pt")).utt_ids)
        except Exception as e:  # noqa
            got = ["<raises>", type(e).__name__]
        if got != refs:
            ctx.violation(dict(sig, api="LangDataSet.utt_ids"), case, {"planted": refs, "discovered": got})


def layouts_of(spec):
    return [{"prefix": spec["prefix"], "suffix": spec["suffix"], "subdirs": sub}
            for sub in (DEFAULT_SUBDIRS, CUSTOM_SUBDIRS)]


def run_layout(ctx, spec, tier, seed, tag=""):
    for n, layout in enumerate(layouts_of(spec)):
        D = Dir(scratch("layout-%d%s" % (n, tag)), layout=layout)
        visited = set()
        try:
            for defect in LAYOUT_DEFECTS:
                for at in (range(len(LAYOUT_IDS)) if defect is not None else (0,)):
                    init = layout_state(layout, at, defect, seed)
                    ctx.key(["layout", tag, layout, h64(init)], nontrivial=True)
                    if defect is None and n == 0:
                        ctx.sample({"layout": layout, "files": sorted(D.real(k) for k in init),
                                    "planted_ids": O.utterances(init)})
                    check_discovery(ctx, D, init)
                    explore_from(ctx, D, init, "plain", visited, cli=True)
        finally:
            D.close()
            try:
                os.rmdir(os.path.dirname(D.root))
            except OSError:
                pass


@contextlib.contextmanager
def mode_ctx(mode):
    MODE[0] = mode
    old = torch.get_default_dtype()
    try:
        if mode == "default-float64":
            torch.set_default_dtype(torch.float64)
            yield
        elif mode == "inference_mode":
            with torch.inference_mode():
                yield
        elif mode is not None and mode.startswith("listing-"):
            # the order in which the OS lists feat/, ali/ and ref/ is an environment answer (mc.seams.ListingPolicy)
            from mc.seams import ListingPolicy

            with ListingPolicy(mode[len("listing-"):]) as lp:
                yield
            LISTINGS[0] += lp.calls
        else:
            yield
    finally:
        torch.set_default_dtype(old)
        MODE[0] = None


def mode_specs():
    """A slice that contains every verdict class (float64 / mixed dtype features in particular)."""
    out = [[("a", 3, fv, av, rv)] for fv in FEATS for av in ("ok", "int32", "T+1")
           for rv in (("1d",), ("2d", (1,)), ("2d", (6,)), ("2d-int32", (3,)))]
    Ta, Tb = UTTS["a"][0], UTTS["b"][0]
    for fa, fb in itertools.product(FEATS, FEATS):
        out.append([("a", Ta, fa, "int32", ("2d", (3,))), ("b", Tb, fb, "T+1", ("2d", (6,)))])
    return out


def triple_specs():
    """three utterances (every listing policy is a different permutation of three entries): one clean, one repairable,
    one that is repairable only with tolerance >= 1 - at every position of the sorted ids"""
    Ta, Tb = UTTS["a"][0], UTTS["b"][0]
    variants = [("ok", ("2d", (1,))), ("int32", ("2d", (3,))), ("T+1", ("2d", (6,)))]
    out = []
    for perm in itertools.permutations(range(3)):
        out.append([(u, T, "ok", variants[k][0], variants[k][1])
                    for (u, T), k in zip((("a", Ta), ("b", Tb), ("c", Ta)), perm)])
    return out


def run_modes(ctx, spec, tier, seed):
    D = Dir(scratch("mode-" + spec["mode"]))
    visited = set()
    listing = spec["mode"].startswith("listing-")
    try:
        with mode_ctx(spec["mode"]):
            if listing:  # the discovery / layout pass (7 ids, decoys, defects at every id) under this listing order
                for pre, suf in (("", ".pt"), ("utt-", ".feat.pt")):
                    run_layout(ctx, {"prefix": pre, "suffix": suf}, tier, seed, tag=spec["mode"])
            for sp in (triple_specs() if listing else []) + mode_specs():
                init = build_state(sp, seed)
                ctx.key(["mode", spec["mode"], h64(init)], nontrivial=is_defect(sp))
                for config in ("plain", "sos_eos"):
                    explore_from(ctx, D, init, config, visited if config == "plain" else set(),
                                 cli=config == "plain")
    finally:
        D.close()
        try:
            os.rmdir(os.path.dirname(D.root))
        except OSError:
            pass


# =========================================================================================
# sos / eos round trip through the public data-set API
# =========================================================================================
def token_lists(maxlen=3, sigma=(0, 1, 2)):
    for n in range(maxlen + 1):
        for x in itertools.product(sigma, repeat=n):
            yield list(x)


def roundtrip_case(ctx, root, cls, ndim, tokens_only, sos, eos, x, seed):
    rng = _rng(seed, "rt", cls, ndim, x)
    T = 4
    if ndim == 1:
        stored = O.tens("int64", [len(x)], list(x))
    else:
        # boundaries from a fixed menu (not drawn): every row position meets unknown (-1), 3 and 4 - the values the
        # sos / eos ids of the COLLIDING settings below take (a boundary must never be mistaken for sos / eos)
        rows = [[tok] + list(RT_BOUNDS[(i + len(x) + 2 * tok) % len(RT_BOUNDS)]) for i, tok in enumerate(x)]
        stored = O.tens("int64", [len(x), 3], rows)
    shutil.rmtree(root, ignore_errors=True)
    case = {"kind": "roundtrip", "cls": cls, "ndim": ndim, "tokens_only": tokens_only, "sos": sos, "eos": eos,
            "x": x, "seed": seed}
    flags = {"cls": cls, "empty_transcript": len(x) == 0, "stored_ndim": ndim, "tokens_only": tokens_only,
             "sos": sos is not None, "eos": eos is not None}
    hyp_dir = os.path.join(root, "hyp")
    if cls == "SpectDataSet":
        os.makedirs(os.path.join(root, "feat"))
        os.makedirs(os.path.join(root, "ref"))
        torch.save(torch.zeros(T, F), os.path.join(root, "feat", "a.pt"))
        torch.save(to_tensor(stored), os.path.join(root, "ref", "a.pt"))
        ds = data.SpectDataSet(root, params=data.SpectDataParams(sos=sos, eos=eos), suppress_alis=True,
                               tokens_only=tokens_only)
    else:
        os.makedirs(os.path.join(root, "ref"))
        torch.save(to_tensor(stored), os.path.join(root, "ref", "a.pt"))
        ds = data.LangDataSet(os.path.join(root, "ref"), params=data.LangDataParams(sos=sos, eos=eos),
                              tokens_only=tokens_only)
    ctx.case(1, 1)
    keep_rows = ndim == 2 and not tokens_only
    want_tok = O.spec_read_tokens(x, sos, eos)
    # ---- read --------------------------------------------------------------------------
    got = None
    try:
        item = ds[0]
        got = item[-1] if cls == "SpectDataSet" else item
    except Exception as e:  # noqa
        ctx.violation(dict(flags, api="__getitem__", symptom="raises", type=type(e).__name__), case,
                      {"error": str(e)[-300:], "expected_tokens": want_tok})
    if got is not None:
        ok = isinstance(got, torch.Tensor) and got.dtype == torch.long
        if ok and keep_rows:
            ok = got.dim() == 2 and got.size(-1) == 3 and got[:, 0].tolist() == want_tok
            if ok:
                lo = 1 if sos is not None else 0
                ok = got[lo:lo + len(x)].tolist() == stored["data"]
        elif ok:
            ok = got.dim() == 1 and got.tolist() == want_tok
        ctx.outcome(["read", want_tok, keep_rows])
        if not ok:
            ctx.violation(dict(flags, api="__getitem__", symptom="sos-eos-missing-or-misplaced"), case,
                          {"expected_tokens": want_tok, "observed": got.tolist() if hasattr(got, "tolist") else repr(got)})
    # ---- write what reading should have returned, then load it ------------------------------
    if keep_rows:
        rows = ([[sos, -1, -1]] if sos is not None else []) + stored["data"] + ([[eos, -1, -1]] if eos is not None else [])
        hyp = torch.tensor(rows, dtype=torch.long).reshape(len(rows), 3)
        bare = stored["data"]
    else:
        hyp = torch.tensor(want_tok, dtype=torch.long)
        bare = list(x)
    ctx.case(1, 1)
    try:
        if cls == "SpectDataSet":
            ds.write_hyp(0, hyp, hyp_dir)
        else:
            ds.write_hyp("a", hyp, hyp_dir)
        st = torch.load(os.path.join(hyp_dir, "a.pt"))
        plain = data.LangDataSet(hyp_dir, tokens_only=not keep_rows)[0]
    except Exception as e:  # noqa
        ctx.violation(dict(flags, api="write_hyp", symptom="raises", type=type(e).__name__), case,
                      {"error": str(e)[-300:]})
        return
    good = st.dtype == torch.long and st.tolist() == bare and plain.tolist() == bare
    ctx.outcome(["write", bare])
    if not good:
        ctx.violation(dict(flags, api="write_hyp", symptom="stored-hypothesis-is-not-the-bare-transcript"), case,
                      {"expected": bare, "stored": st.tolist(), "loaded": plain.tolist()})


def run_roundtrip(ctx, spec, tier, seed):
    root = scratch("rt-%s-%d" % (spec["cls"], spec["ndim"]))
    try:
        for tokens_only in (False, True):
            for sos, eos in ((None, None), (SOS, None), (None, EOS), (SOS, EOS), (3, 4), (4, 3), (-1, None), (None, -1)):
                for x in token_lists(3 if tier == "quick" else 4):
                    roundtrip_case(ctx, root, spec["cls"], spec["ndim"], tokens_only, sos, eos, x, seed)
        ctx.sample({"roundtrip": spec, "example": {"x": [1, 0], "sos": SOS, "eos": EOS,
                                                   "read": O.spec_read_tokens([1, 0], SOS, EOS), "written": [1, 0]}})
    finally:
        shutil.rmtree(root, ignore_errors=True)
        try:
            os.rmdir(os.path.dirname(root))
        except OSError:
            pass


# =========================================================================================
# framework entry points
# =========================================================================================
def shards(tier, seed):
    out = []
    per = 180 if tier == "quick" else 1200

    def split(kind, config, weight=1.0):
        n = int(len(initial_specs(kind, config, tier)) * weight)
        of = max(1, -(-n // per))
        return [{"kind": kind, "config": config, "part": i, "of": of} for i in range(of)]

    out += [{"kind": "layout", "prefix": p, "suffix": x} for p in PREFIXES for x in SUFFIXES]
    out += [{"kind": "modes", "mode": m} for m in ("default-float64", "inference_mode")]
    out += [{"kind": "modes", "mode": "listing-" + pol} for pol in LISTING_POLICIES[1:]]
    out += split("singles", "plain", 1.6)  # plain shards also do the report and the command
    out += split("pairs", "plain", 1.5)
    out += split("singles", "sos_eos")
    out += split("pairs", "sos_eos", 1.3)
    out += split("singles", "tokens_only")
    out += split("singles", "with_uttids", 0.5)
    out += [{"kind": "roundtrip", "cls": c, "ndim": n} for c in ("SpectDataSet", "LangDataSet") for n in (1, 2)]
    return out


def run_shard(spec, tier, seed):
    ctx = Ctx()
    if spec["kind"] == "roundtrip":
        run_roundtrip(ctx, spec, tier, seed)
    elif spec["kind"] == "layout":
        run_layout(ctx, spec, tier, seed)
    elif spec["kind"] == "modes":
        run_modes(ctx, spec, tier, seed)
    else:
        run_explore(ctx, spec, tier, seed)
    return ctx


def replay(case):
    ctx = Ctx()
    D = Dir(scratch("replay"), layout=case.get("layout"))
    try:
        with mode_ctx(case.get("mode")):
            if case["kind"] == "transition":
                eval_transition(ctx, D, case["state"], case["config"], case["fix"], entry=case["entry"])
            elif case["kind"] == "object-history":
                obj = Obj(D, case["config"], case["init"])
                for call in case["calls"]:
                    D.ensure(call["state"])
                    obj.calls.append((call["state"], call["fix"]))
                    err, _, _ = run_validate(D, case["config"], call["fix"], "function", ds=obj.ds)
                    D.snapshot()
                    if not check_object(ctx, obj, call["fix"], err is not None):
                        break
            elif case["kind"] == "info":
                check_info(ctx, D, case["state"])
            elif case["kind"] == "discovery":
                check_discovery(ctx, D, case["state"])
            elif case["kind"] == "roundtrip":
                roundtrip_case(ctx, D.root, case["cls"], case["ndim"], case["tokens_only"], case["sos"],
                               case["eos"], case["x"], case["seed"])
            else:
                raise ValueError("unknown replay kind %r" % (case["kind"],))
    finally:
        D.close()
        shutil.rmtree(os.path.dirname(D.root), ignore_errors=True)
    return ctx
