"""C17 conversion round trips: trn, ctm, TextGrid, ali <-> token."""

import itertools
import os

import torch

from pydrobert.torch import command_line as C

from mc.oracles import cli as O
from checks._c17_common import (IDS, IOS, OTHER, tok2id, strings, io_flags, distractor_names, save,
                                schedules, real, wipe)
from checks._c17_seams import run_cmd, ok, snapshot, write, read

I64 = "torch.int64"


def tens(values, shape):
    return ["tensor", I64, list(shape), values]


def _diff_snap(exp, got):
    """first difference between two snapshots"""
    if sorted(exp) != sorted(got):
        return {"expected_files": sorted(exp), "observed_files": sorted(got)}
    for k in sorted(exp):
        if exp[k] != got[k]:
            return {"file": k, "expected": exp[k], "observed": got[k]}
    return None


def _files_symptom(exp, got):
    if set(exp) - set(got):
        return "missing-output-files"
    if set(got) - set(exp):
        return "extra-output-files"
    return "wrong-tensor"


def _id2token_args(path, swap):
    """the mapping file was written '<token> <id>' (swap False) or '<id> <token>' (swap True); commands
    that want id2token read '<id> <token>' unless --swap"""
    return [path] + ([] if swap else ["--swap"])


# =========================================================================================
# trn
def cases_trn(tier, seed):
    L1, L2, L3 = (2, 1, 1) if tier == "quick" else (3, 2, 1)
    corpora = [[s] for s in strings(L1)]
    corpora += [list(p) for p in itertools.product(strings(L2), repeat=2)]
    corpora += [list(p) for p in itertools.product(strings(L3), repeat=3)]
    first_real = tier == "thorough"
    for corp in corpora:
        utts = [[IDS[i], toks] for i, toks in enumerate(corp)]
        for prefix, suffix in IOS:
            for size in ("full", "skip", "feat"):
                c = dict(fam="trn", utts=utts, prefix=prefix, suffix=suffix, size=size, swap=False,
                         unk=False, alt=False)
                if first_real and len(utts) == 3 and prefix and suffix == ".x":
                    c["real"] = True
                    first_real = False
                yield c
    for corp in corpora:
        if len(corp) > 2 or sum(map(len, corp)) == 0:
            continue
        utts = [[IDS[i], toks] for i, toks in enumerate(corp)]
        for swap, unk, alt in ((True, False, False), (False, True, False), (False, False, True), (True, True, True)):
            yield dict(fam="trn", utts=utts, prefix="p_", suffix=".pt", size="full", swap=swap, unk=unk, alt=alt)


def eval_trn(env, case):
    env.begin(case)
    t2i = tok2id(env.seed, case.get("big_ids"))
    prefix, suffix, size = case["prefix"], case["suffix"], case["size"]
    lines, expect = [], {}
    for u, toks in case["utts"]:
        words, exp = list(toks), list(toks)
        if case["unk"]:
            words.append("zz")
            exp.append("c")
        text = "".join(w + " " for w in words)
        if case["alt"] and words:
            text = "{ " + words[0] + " / c b } " + "".join(w + " " for w in words[1:])
        lines.append(f"{text}({u})\n")
        expect[u] = exp
    trn = write(env.p("in.trn"), "".join(lines))
    tfile = write(env.p("tok.map"), O.token2id_text(t2i, case["swap"]))
    ref = env.p("ref")
    args = [trn, tfile, ref] + io_flags(prefix, suffix)
    if case["swap"]:
        args.append("--swap")
    if case["unk"]:
        args += ["--unk-symbol", "c"]
    if case["alt"]:
        args += ["--alt-handler", "first"]
    if size == "skip":
        args.append("--skip-frame-times")
    elif size == "feat":
        args.append("--feat-sizing")
    api = "trn-to-torch-token-data-dir"
    flags = {"size": size}
    res = run_cmd(C.trn_to_torch_token_data_dir, args + ["--num-workers", 0])
    env.ev(api, "w0", nontrivial=any(expect.values()))
    if not ok(res):
        env.raises(api, res, **flags)
        return
    exp_snap = {}
    for u, exp in expect.items():
        ids = [t2i[t] for t in exp]
        if size == "full":
            exp_snap[prefix + u + suffix] = tens([[i, -1, -1] for i in ids], (len(ids), 3))
        elif size == "skip":
            exp_snap[prefix + u + suffix] = tens(ids, (len(ids),))
        else:
            exp_snap[prefix + u + suffix] = tens([[i] for i in ids], (len(ids), 1))
    base = snapshot(ref)
    d = _diff_snap(exp_snap, base)
    if d:
        env.viol(dict({"api": api, "symptom": _files_symptom(exp_snap, base)}, **flags), d)
        return
    env.ctx.outcome(base)
    schedules(env, api, C.trn_to_torch_token_data_dir, args, lambda: wipe(ref), lambda r: snapshot(ref), base,
              flags=flags)
    if case.get("real"):
        ref2 = env.p("ref_real")
        real(env, api, "trn_to_torch_token_data_dir", [trn, tfile, ref2] + args[3:], lambda r: snapshot(ref2), base)
    # ---- and back --------------------------------------------------------------------
    res = run_cmd(C.trn_to_torch_token_data_dir, args + ["--num-workers", 0])  # restore after wipes
    if not ok(res) or snapshot(ref) != base:
        env.viol({"api": api, "symptom": "not-repeatable"}, {"error": "second serial run differs"})
        return
    for name in distractor_names(prefix, suffix):
        save(torch.tensor([0]), os.path.join(ref, name))
    api2 = "torch-token-data-dir-to-trn"
    out = env.p("out.trn")
    def mk2(o):
        return [ref] + _id2token_args(tfile, case["swap"]) + [o] + io_flags(prefix, suffix)

    args2 = mk2(out)
    res = run_cmd(C.torch_token_data_dir_to_trn, args2 + ["--num-workers", 0])
    env.ev(api2, "w0", nontrivial=any(expect.values()))
    if not ok(res):
        env.raises(api2, res, **flags)
        return
    text = read(out)
    got = O.parse_trn(text)
    if len(got) != len(expect) or dict((u, t) for u, t in got) != expect:
        sym = "extra-utterances" if set(u for u, _ in got) - set(expect) else "round-trip-differs"
        env.viol(dict({"api": api2, "symptom": sym}, **flags), {"expected": expect, "observed": got})
        return
    env.ctx.outcome(text)
    schedules(env, api2, C.torch_token_data_dir_to_trn, args2, lambda: wipe(out), lambda r: read(out), text,
              chunks=(None,), flags=flags)
    if case.get("real"):
        out2 = env.p("out_real.trn")
        real(env, api2, "torch_token_data_dir_to_trn", mk2(out2), lambda r: read(out2), text, loader=True)
    if len(env.ctx.samples) < 1 and len(expect) > 1 and all(expect.values()):
        env.ctx.sample({"family": "trn", "trn": "".join(lines), "dir": base, "back": text})


# =========================================================================================
# timed segment patterns shared by ctm and TextGrid
def seg_patterns(T, max_segs, zero_len=False):
    """all lists of <= max_segs non-overlapping segments (s, e) on the frame grid 0..T with increasing
    starts (gaps allowed)"""
    spans = [(s, e) for s in range(T + 1) for e in range(s if zero_len else s + 1, T + 1)]
    out = [[sp] for sp in spans]
    if max_segs >= 2:
        out += [[a, b] for a in spans for b in spans if a[1] <= b[0] and a[0] < b[0]]
    return out


def with_tokens(pattern, k):
    return [[O.TOKENS[(k + i) % 3], s, e] for i, (s, e) in enumerate(pattern)]


MENU = [[(0, 1)], [(1, 3), (3, 4)], [(0, 2), (3, 4)], [(2, 4)]]


def cases_ctm(tier, seed):
    pats = seg_patterns(4, 2, zero_len=tier == "thorough")
    corpora = []
    for k, pat in enumerate(pats):
        for rot in ((k % 3,) if tier == "quick" else (0, 1, 2)):
            corpora.append([with_tokens(pat, rot)])
    corpora += [[with_tokens(a, 0), with_tokens(b, 1)] for a in MENU for b in MENU]
    corpora += [[with_tokens(a, 0), with_tokens(b, 1), with_tokens(c, 2)]
                for a in MENU[:2] for b in MENU[1:3] for c in MENU[2:]]
    first_real = tier == "thorough"
    for corp in corpora:
        utts = [dict(id=IDS[i], wfn=IDS[i], chan="A", segs=segs) for i, segs in enumerate(corp)]
        for (prefix, suffix), fs in itertools.product(IOS, (10, 250)):
            c = dict(fam="ctm", utts=utts, prefix=prefix, suffix=suffix, fs=fs, map=None, map_back=None,
                     swap=False, rev=False, size="full")
            if first_real and len(utts) == 3:
                c["real"] = True
                first_real = False
            yield c
    for corp in corpora:
        if len(corp) < 2:
            continue
        # two utterances share a wave file and differ by channel
        wcs = [("w1", "A"), ("w1", "B"), ("w0", "A")]
        utts = [dict(id=IDS[i], wfn=wcs[i][0], chan=wcs[i][1], segs=segs) for i, segs in enumerate(corp)]
        for m, mb in itertools.product(("wc2utt", "utt2wc"), repeat=2):
            yield dict(fam="ctm", utts=utts, prefix="", suffix=".pt", fs=10, map=m, map_back=mb, swap=mb == "wc2utt",
                       rev=m == "utt2wc", size="full")
        utts = [dict(id=IDS[i], wfn=IDS[i], chan="B", segs=segs) for i, segs in enumerate(corp)]
        yield dict(fam="ctm", utts=utts, prefix="p_", suffix=".x", fs=250, map=None, map_back=None, swap=True,
                   rev=True, size="full")
        for size in ("skip", "feat"):
            yield dict(fam="ctm", utts=utts, prefix="", suffix=".x", fs=10, map=None, map_back=None, swap=False,
                       rev=False, size=size)


def _timed_tensor_ok(got, segs, t2i, point=False):
    """stored (R,3) rows against the grid segments: ids exact, frames within one frame"""
    if got[0] != "tensor" or got[1] != I64 or got[2] != [len(segs), 3]:
        return False
    for row, (tok, s, e) in zip(got[3], segs):
        if row[0] != t2i[tok] or abs(row[1] - s) > 1 or abs(row[2] - e) > 1 or row[2] < row[1]:
            return False
        if point and row[1] != row[2]:
            return False
    return True


def _check_timed_dir(env, api, snap, expect, t2i, prefix, suffix, size, flags):
    names = {prefix + u + suffix: u for u in expect}
    if sorted(names) != sorted(snap):
        env.viol(dict({"api": api, "symptom": _files_symptom(names, snap)}, **flags),
                 {"expected_files": sorted(names), "observed_files": sorted(snap)})
        return False
    for name, u in names.items():
        segs, point = expect[u]
        if size == "full":
            good = _timed_tensor_ok(snap[name], segs, t2i, point)
        elif size == "skip":
            good = snap[name] == tens([t2i[t] for t, _, _ in segs], (len(segs),))
        else:
            good = snap[name] == tens([[t2i[t]] for t, _, _ in segs], (len(segs), 1))
        if not good:
            env.viol(dict({"api": api, "symptom": "wrong-tensor"}, **flags),
                     {"file": name, "grid_segments": segs, "observed": snap[name]})
            return False
    return True


def eval_ctm(env, case):
    env.begin(case)
    t2i = tok2id(env.seed, case.get("big_ids"))
    prefix, suffix, fs, size = case["prefix"], case["suffix"], case["fs"], case["size"]
    rows = []
    for u in case["utts"]:
        rows += [(u["wfn"], u["chan"], s, e, t) for t, s, e in u["segs"]]
    rows.sort(key=lambda r: (r[0], r[1], r[2]))
    ctm = write(env.p("in.ctm"), O.ctm_text(rows[::-1] if case["rev"] else rows, fs))
    tfile = write(env.p("tok.map"), O.token2id_text(t2i, case["swap"]))
    fsflag = [] if fs == 10 else ["--frame-shift-ms", fs]
    maps = {
        "wc2utt": write(env.p("wc2utt"), "".join(f"{u['wfn']} {u['chan']} {u['id']}\n" for u in case["utts"])),
        "utt2wc": write(env.p("utt2wc"), "".join(f"{u['id']} {u['wfn']} {u['chan']}\n" for u in case["utts"])),
    }
    ref = env.p("ref")
    args = [ctm, tfile, ref] + io_flags(prefix, suffix) + (["--swap"] if case["swap"] else [])
    if size == "full":
        args += fsflag
    else:
        args.append("--skip-frame-times" if size == "skip" else "--feat-sizing")
    if case["map"]:
        args += ["--" + case["map"], maps[case["map"]]]
    api = "ctm-to-torch-token-data-dir"
    flags = {"map": case["map"], "size": size}
    res = run_cmd(C.ctm_to_torch_token_data_dir, args + ["--num-workers", 0])
    env.ev(api)
    if not ok(res):
        env.raises(api, res, **flags)
        return
    base = snapshot(ref)
    expect = {u["id"]: (u["segs"], False) for u in case["utts"]}
    if not _check_timed_dir(env, api, base, expect, t2i, prefix, suffix, size, flags):
        return
    env.ctx.outcome(base)
    schedules(env, api, C.ctm_to_torch_token_data_dir, args, lambda: wipe(ref), lambda r: snapshot(ref), base,
              flags=flags)
    if case.get("real"):
        ref2 = env.p("ref_real")
        real(env, api, "ctm_to_torch_token_data_dir", [ctm, tfile, ref2] + args[3:], lambda r: snapshot(ref2), base)
    if size != "full":
        return
    res = run_cmd(C.ctm_to_torch_token_data_dir, args + ["--num-workers", 0])
    if not ok(res) or snapshot(ref) != base:
        env.viol({"api": api, "symptom": "not-repeatable"}, {"error": "second serial run differs"})
        return
    for name in distractor_names(prefix, suffix):
        save(torch.tensor([[0, 0, 1]]), os.path.join(ref, name))
    api2 = "torch-token-data-dir-to-ctm"
    out = env.p("out.ctm")
    args2 = [ref] + _id2token_args(tfile, case["swap"]) + [out] + io_flags(prefix, suffix) + fsflag
    if case["map_back"]:
        args2 += ["--" + case["map_back"], maps[case["map_back"]]]
    elif case["utts"][0]["chan"] != "A":
        args2 += ["--channel", case["utts"][0]["chan"]]
    flags2 = {"map": case["map_back"]}
    res = run_cmd(C.torch_token_data_dir_to_ctm, args2)
    env.ev(api2)
    if not ok(res):
        env.raises(api2, res, **flags2)
        return
    got = O.parse_ctm(read(out))
    F = fs / 1000.0
    bad = len(got) != len(rows)
    for (w, c, st, du, tok), (w0, c0, s0, e0, t0) in zip(got, rows):
        if (w, c, tok) != (w0, c0, t0) or abs(st - s0 * F) > F + 1e-9 or abs(st + du - e0 * F) > F + 1e-9 or du < 0:
            bad = True
    if bad:
        sym = "extra-utterances" if set(r[0] for r in got) - set(r[0] for r in rows) else "round-trip-differs"
        env.viol(dict({"api": api2, "symptom": sym}, **flags2),
                 {"original_rows_frames": rows, "frame_s": F, "observed": got})
        return
    env.ctx.outcome([(w, c, round(st / F), round((st + du) / F), t) for w, c, st, du, t in got])
    if len(env.ctx.samples) < 1 and len(case["utts"]) > 1:
        env.ctx.sample({"family": "ctm", "ctm": read(ctm), "dir": base, "back": read(out)})


# =========================================================================================
# TextGrid
def point_patterns(T):
    pts = [[(t, t)] for t in range(T + 1)]
    pts += [[(a, a), (b, b)] for a in range(T + 1) for b in range(a + 1, T + 1)]
    return pts


def cases_tg(tier, seed):
    ipats = seg_patterns(4, 2)
    ppats = point_patterns(4)
    corpora = []
    for k, pat in enumerate(ipats):
        corpora.append([dict(point=False, segs=with_tokens(pat, k % 3), T=4 + k % 2)])
    for k, pat in enumerate(ppats):
        corpora.append([dict(point=True, segs=with_tokens(pat, k % 3), T=4 + k % 2)])
    mixed = [dict(point=False, segs=with_tokens(MENU[1], 0), T=4), dict(point=True, segs=with_tokens([(1, 1), (3, 3)], 1), T=4),
             dict(point=False, segs=with_tokens(MENU[2], 2), T=5)]
    corpora += [[a, b] for a in mixed for b in mixed]
    corpora += [list(p) for p in itertools.permutations(mixed)][:4]
    first_real = tier == "thorough"
    for corp in corpora:
        utts = [dict(u, id=IDS[i]) for i, u in enumerate(corp)]
        for j, (prefix, suffix) in enumerate(IOS):
            for fs, ln in ((10, "infer"), (250, "feat")):
                c = dict(fam="tg", utts=utts, prefix=prefix, suffix=suffix, tgsuf=(".TextGrid", ".tg")[j % 2], fs=fs,
                         len=ln, precision=None, fill=False, method=None, tier=None, swap=False, size="full")
                if first_real and len(utts) == 3:
                    c["real"] = True
                    first_real = False
                yield c
    for corp in corpora:
        utts = [dict(u, id=IDS[i]) for i, u in enumerate(corp)]
        allint = not any(u["point"] for u in utts)
        base = dict(fam="tg", utts=utts, prefix="p_", suffix=".pt", tgsuf=".TextGrid", fs=10, len="feat",
                    precision=None, fill=False, method=None, tier=None, swap=True, size="full")
        if allint:
            yield dict(base, fill=True)
            yield dict(base, fill=True, len="infer", tier="name")
            yield dict(base, method=1, len="infer")
            yield dict(base, method=2, tier="idx")
            yield dict(base, size="skip")
        else:
            yield dict(base, method=2, len="infer")
        yield dict(base, method=3)
        yield dict(base, fs=0.25, precision=5, len="infer", tier="name")
        yield dict(base, fs=0.25, precision=5)


def eval_tg(env, case):
    env.begin(case)
    t2i = tok2id(env.seed, case.get("big_ids"))
    prefix, suffix, tgsuf, fs = case["prefix"], case["suffix"], case["tgsuf"], case["fs"]
    tname = "words" if case["tier"] == "name" else "transcript"
    tgdir, ref, featdir, tgout = env.p("tg"), env.p("ref"), env.p("feat"), env.p("tg_out")
    expect = {}
    for u in case["utts"]:
        write(os.path.join(tgdir, prefix + u["id"] + tgsuf), O.textgrid_text(u["segs"], u["point"], fs, u["T"], tname))
        segs = [list(s) for s in u["segs"]]
        if case["fill"]:
            filled, cur = [], 0
            for t, s, e in segs:
                if cur < s:
                    filled.append(["c", cur, s])
                filled.append([t, s, e])
                cur = e
            if cur < u["T"]:
                filled.append(["c", cur, u["T"]])
            segs = filled
        expect[u["id"]] = (segs, u["point"])
        if case["len"] == "feat":
            save(torch.zeros(u["T"], 2), os.path.join(featdir, prefix + u["id"] + suffix))
    dummy = O.textgrid_text([["a", 0, 1]], False, fs, 1)
    write(os.path.join(tgdir, prefix + "zz.other"), dummy)
    if prefix:
        write(os.path.join(tgdir, "zz" + tgsuf), dummy)
    tfile = write(env.p("tok.map"), O.token2id_text(t2i, case["swap"]))
    fsflag = [] if fs == 10 else ["--frame-shift-ms", fs]
    sufflag = [] if tgsuf == ".TextGrid" else ["--textgrid-suffix", tgsuf]
    size = case["size"]
    args = [tgdir, tfile, ref] + io_flags(prefix, suffix) + sufflag + (["--swap"] if case["swap"] else [])
    args += fsflag if size == "full" else ["--skip-frame-times"]
    if case["fill"]:
        args += ["--fill-symbol", "c"]
    if case["tier"] == "name":
        args += ["--tier-name", tname]
    elif case["tier"] == "idx":
        args += ["--tier-idx", 0]
    api = "textgrids-to-torch-token-data-dir"
    flags = {"fill": case["fill"], "size": size}
    res = run_cmd(C.textgrids_to_torch_token_data_dir, args + ["--num-workers", 0])
    env.ev(api)
    if not ok(res):
        env.raises(api, res, **flags)
        return
    base = snapshot(ref)
    if not _check_timed_dir(env, api, base, expect, t2i, prefix, suffix, size, flags):
        return
    env.ctx.outcome(base)
    schedules(env, api, C.textgrids_to_torch_token_data_dir, args, lambda: wipe(ref), lambda r: snapshot(ref), base,
              flags=flags)
    if case.get("real"):
        ref2 = env.p("ref_real")
        real(env, api, "textgrids_to_torch_token_data_dir", [tgdir, tfile, ref2] + args[3:],
             lambda r: snapshot(ref2), base)
    res = run_cmd(C.textgrids_to_torch_token_data_dir, args + ["--num-workers", 0])
    if not ok(res) or snapshot(ref) != base:
        env.viol({"api": api, "symptom": "not-repeatable"}, {"error": "second serial run differs"})
        return
    # ---- and back --------------------------------------------------------------------
    for name in distractor_names(prefix, suffix):
        save(torch.tensor([[0, 0, 1]]), os.path.join(ref, name))
        save(torch.zeros(1, 2), os.path.join(featdir, name))
    api2 = "torch-token-data-dir-to-textgrids"
    method = case["method"]

    def mk2(o):
        a = [ref] + _id2token_args(tfile, case["swap"]) + [o]
        a += ["--infer"] if case["len"] == "infer" else ["--feat-dir", featdir]
        a += io_flags(prefix, suffix) + sufflag + fsflag
        if case["precision"] is not None:
            a += ["--precision", case["precision"]]
        if tname != "transcript":
            a += ["--tier-name", tname]
        if method:
            a += ["--force-method", method]
        return a

    args2 = mk2(tgout)
    flags2 = {"method": method, "precision_flag": case["precision"] is not None, "size": size,
              "late_times": max(e for u in case["utts"] for _, _, e in u["segs"]) > 2 ** 24}
    res = run_cmd(C.torch_token_data_dir_to_textgrids, args2 + ["--num-workers", 0])
    env.ev(api2)
    if not ok(res):
        env.raises(api2, res, **flags2)
        return
    base2 = snapshot(tgout)
    names = {prefix + u + tgsuf: u for u in expect}
    if sorted(names) != sorted(base2):
        env.viol(dict({"api": api2, "symptom": _files_symptom(names, base2)}, **flags2),
                 {"expected_files": sorted(names), "observed_files": sorted(base2)})
        return
    F = float(fs) / 1000.0
    tol = F + 1e-9
    for name, uid in names.items():
        segs, point = expect[uid]
        T = [u["T"] for u in case["utts"] if u["id"] == uid][0]
        Tx = T if case["len"] == "feat" else max(e for _, _, e in segs)
        try:
            tg = O.parse_textgrid(base2[name][1])
        except Exception as e:  # noqa: BLE001
            env.viol(dict({"api": api2, "symptom": "unparsable-textgrid"}, **flags2),
                     {"file": name, "text": base2[name], "error": str(e)})
            return
        if size == "skip" or method == 3:
            want_kind, want = "IntervalTier", [[" ".join(t for t, _, _ in segs), 0, Tx]]
        elif point or method == 2:
            want_kind, want = "TextTier", [[t, max(s, e), max(s, e)] for t, s, e in segs]
        else:
            want_kind, want = "IntervalTier", segs
        sym = None
        if tg["kind"] != want_kind:
            sym = "wrong-tier-kind"
        elif tg["name"] != tname:
            sym = "wrong-tier-name"
        elif [s[0] for s in tg["segs"]] != [w[0] for w in want]:
            sym = "wrong-tokens"
        elif any(abs(g[1] - w[1] * F) > tol or abs(g[2] - w[2] * F) > tol for g, w in zip(tg["segs"], want)):
            sym = "times-beyond-one-frame"
        elif abs(tg["xmin"]) > 1e-9 or abs(tg["xmax"] - Tx * F) > tol:
            sym = "wrong-file-span"
        elif case["precision"] is not None and any(len(x.split(".")[-1]) != case["precision"] for x in tg["raw_times"]):
            sym = "precision-ignored"
        if sym:
            env.viol(dict({"api": api2, "symptom": sym}, **flags2),
                     {"file": name, "expected_kind": want_kind, "expected_segments_frames": want, "frame_s": F,
                      "expected_span_frames": Tx, "observed": tg})
            return
    env.ctx.outcome(base2)
    schedules(env, api2, C.torch_token_data_dir_to_textgrids, args2, lambda: wipe(tgout), lambda r: snapshot(tgout),
              base2, flags=flags2)
    if case.get("real"):
        out2 = env.p("tg_real")
        real(env, api2, "torch_token_data_dir_to_textgrids", mk2(out2), lambda r: snapshot(out2), base2)
    if len(env.ctx.samples) < 1 and len(case["utts"]) > 1:
        env.ctx.sample({"family": "tg", "dir": base, "back": base2})


# =========================================================================================
# ali <-> token
def cases_ali(tier, seed):
    Tmax = 3 if tier == "quick" else 4
    singles = []
    for T in range(1, Tmax + 1):
        singles += [list(p) for p in itertools.product((0, 1, 2), repeat=T)]
    small = [list(p) for T in (1, 2) for p in itertools.product((0, 1), repeat=T)]
    corpora = [[a] for a in singles]
    corpora += [[a, b] for a in small for b in small]
    menu = [[0], [1, 1, 0], [2, 0, 2, 2], [0, 1]]
    corpora += [[a, b, c] for a in menu[:2] for b in menu[1:3] for c in menu[2:]]
    first_real = tier == "thorough"
    for corp in corpora:
        alis = [[IDS[i], a] for i, a in enumerate(corp)]
        for (prefix, suffix), distract, feat in itertools.product(IOS, (False, True), (False, True)):
            if len(corp) == 1 and distract != feat and tier == "quick":
                continue
            c = dict(fam="ali", alis=alis, prefix=prefix, suffix=suffix, distract=distract, feat=feat)
            if first_real and len(alis) == 3 and not prefix:
                c["real"] = True
                first_real = False
            yield c


def eval_ali(env, case):
    env.begin(case)
    prefix, suffix = case["prefix"], case["suffix"]
    ali, ref, ali2, featdir = env.p("ali"), env.p("ref"), env.p("ali_back"), env.p("feat")
    exp_ali, exp_ref = {}, {}
    for u, a in case["alis"]:
        name = prefix + u + suffix
        save(torch.tensor(a), os.path.join(ali, name))
        save(torch.zeros(len(a), 2), os.path.join(featdir, name))
        exp_ali[name] = tens(a, (len(a),))
        rr = O.runs(a)
        exp_ref[name] = tens([list(r) for r in rr], (len(rr), 3))
    dn = distractor_names(prefix, suffix) if case["distract"] else []
    for name in dn:
        save(torch.tensor([2, 2]), os.path.join(ali, name))
    common = {"family": "ali-token", "distractors": case["distract"]}

    def classify(exp, got):
        sym = _files_symptom(exp, got)
        return dict(common, symptom=sym, **({"class": "file-selection"} if sym != "wrong-tensor" else {}))

    api = "torch-ali-data-dir-to-torch-token-data-dir"
    args = [ali, ref] + io_flags(prefix, suffix)

    def forward():
        res = run_cmd(C.torch_ali_data_dir_to_torch_token_data_dir, args + ["--num-workers", 0])
        env.ev(api)
        if not ok(res):
            env.raises(api, res, **common)
            return
        base = snapshot(ref) if os.path.isdir(ref) else {}
        base.pop("./", None)
        d = _diff_snap(exp_ref, base)
        if d:
            env.viol(dict(classify(exp_ref, base), api=api), d)
            return
        env.ctx.outcome(base)
        schedules(env, api, C.torch_ali_data_dir_to_torch_token_data_dir, args, lambda: wipe(ref),
                  lambda r: snapshot(ref), base, flags=common)
        if case.get("real"):
            ref2 = env.p("ref_real")
            real(env, api, "torch_ali_data_dir_to_torch_token_data_dir", [ali, ref2] + args[2:],
                 lambda r: snapshot(ref2), base)

    forward()
    # the token directory a correct forward step produces is fully determined (checked above), so the
    # way back starts from exactly that directory even when the forward step failed
    wipe(ref)
    for name, t in exp_ref.items():
        save(torch.tensor(t[3], dtype=torch.long).view(*t[2]), os.path.join(ref, name))
    # ---- and back --------------------------------------------------------------------
    for name in dn:
        save(torch.tensor([[2, 0, 2]]), os.path.join(ref, name))
        save(torch.zeros(2, 2), os.path.join(featdir, name))
    api2 = "torch-token-data-dir-to-torch-ali-data-dir"
    args2 = [ref, ali2] + io_flags(prefix, suffix) + (["--feat-dir", featdir] if case["feat"] else [])
    res = run_cmd(C.torch_token_data_dir_to_torch_ali_data_dir, args2 + ["--num-workers", 0])
    env.ev(api2)
    if not ok(res):
        env.raises(api2, res, **common)
        return
    base2 = snapshot(ali2)
    base2.pop("./", None)
    d = _diff_snap(exp_ali, base2)
    if d:
        env.viol(dict(classify(exp_ali, base2), api=api2), d)
        return
    env.ctx.outcome(base2)
    schedules(env, api2, C.torch_token_data_dir_to_torch_ali_data_dir, args2, lambda: wipe(ali2),
              lambda r: snapshot(ali2), base2, flags=common)
    if case.get("real"):
        out2 = env.p("ali_real")
        real(env, api2, "torch_token_data_dir_to_torch_ali_data_dir", [ref, out2] + args2[2:],
             lambda r: snapshot(out2), base2)
    if len(env.ctx.samples) < 1 and len(case["alis"]) > 1:
        env.ctx.sample({"family": "ali", "ali": exp_ali, "token_dir": exp_ref, "back": base2})
