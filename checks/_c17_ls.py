"""C17: the order in which the operating system lists a directory is an environment answer the commands must not
depend on.  A slice of every family is evaluated under each of the six listing policies of ``mc.seams.ListingPolicy``
(every permutation of a directory with <= 3 entries; six distinct orders of larger ones), applied to every
``os.listdir`` / ``os.scandir`` below the scratch root (serial run and every worker schedule alike, since the
family evaluation itself explores those).  Everything the commands write or print - and every verdict of the
family's own oracle - must be the same under every policy."""

from mc.runner import Ctx, jsonable
from mc.seams import ListingPolicy, LISTING_POLICIES
from checks._c17_common import Env

PER_FAMILY = 14


class _RecCtx(Ctx):
    def __init__(self):
        super().__init__()
        self.log = []

    def outcome(self, o):
        self.log.append(jsonable(o))
        super().outcome(o)


def _nutts(c):
    for k in ("utts", "alis", "ids", "lens", "Ts", "refs"):
        if isinstance(c.get(k), (list, tuple)):
            return len(c[k])
    return c.get("n", 2)


def make(families):
    def cases(tier, seed):
        per = PER_FAMILY * (3 if tier == "thorough" else 1)
        for fam, (gen, _, _) in families.items():
            if fam in ("f64", "life", "flags", "ls"):
                continue
            allc = list(gen(tier, seed))
            # corpora with the most utterances first: a one-file directory has one listing order
            multi = [c for c in allc if _nutts(c) >= 2] or allc
            pick = multi[seed % 5:: max(1, len(multi) // per)]
            for c in pick:
                c = dict(c)
                c.pop("fresh", None)
                c.pop("real", None)
                yield dict(fam="ls", inner_fam=fam, inner=c)

    def evaluate(env, case):
        ev = families[case["inner_fam"]][1]
        logs, calls = {}, 0
        for pol in LISTING_POLICIES:
            rc = _RecCtx()
            e2 = Env(rc, env.root, env.tier, env.seed)
            e2.tag = "listing-" + pol
            e2.extra_sig = {"listing_order": pol}
            e2.case_override = case
            with ListingPolicy(pol) as lp:
                ev(e2, dict(case["inner"]))
            calls += lp.calls
            logs[pol] = rc.log
            rc.samples = []
            env.ctx.merge(rc)
        env.ctx.count("cases-under-six-listing-orders")
        env.ctx.count("directory-listings-answered-by-the-seam", calls)
        if not calls:
            env.ctx.count("listing-seam-not-reached")
        base = logs["sorted"]
        for pol in LISTING_POLICIES[1:]:
            b = logs[pol]
            if b != base:
                i = next((k for k in range(min(len(base), len(b))) if base[k] != b[k]), min(len(base), len(b)))
                env.ctx.violation({"api": case["inner_fam"], "kind": case["inner"].get("kind"),
                                   "symptom": "output-depends-on-directory-listing-order"}, case,
                                  {"policy": pol, "first_difference_at_observation": i,
                                   "sorted_listing": base[i: i + 1], "this_listing": b[i: i + 1]})
                break

    return cases, evaluate
