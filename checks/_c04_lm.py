"""Harness pieces for C04: the table language model as a torch module whose state is *threaded*
through the search, and a BeamSearch subclass that only observes (documented hook)."""

from typing import Dict, Tuple

import torch

import pydrobert.torch.modules as M

from mc.oracles import decoding_beam as O


class LMContractBreach(RuntimeError):
    """the search called the language model outside the documented contract"""


class SearchDoesNotTerminate(RuntimeError):
    """more model calls in one search than any search of the scope can need"""


class TableLM(M.MixableSequentialLanguageModel):
    """State dictionary: ``code`` (N,) integer code of the tokens consumed so far, ``off`` (N,) bias row of
    the batch element (comes from the initial state and never changes).  Both are re-ordered *only* by
    extract_by_src / mix_by_mask.  At a call for index t the
    state holds the code of hist[:t-1] (as with a recurrent network) and the token hist[t-1] is consumed
    first.  A caller that hands over state belonging to another path therefore gets the logits of that
    other path's history and batch element."""

    def __init__(self, model: O.TableModel, trainable: bool = False):
        super().__init__(model.V)
        self.model = model
        if trainable:  # the logits then require grad (autograd-state variants)
            self.rows = torch.nn.Parameter(torch.tensor(model.rows, dtype=torch.float32))
        else:
            self.register_buffer("rows", torch.tensor(model.rows, dtype=torch.float32))
        self.register_buffer("bias", torch.tensor(model.bias, dtype=torch.float32))
        self.size = model.size
        self.n_calls = 0
        self.n_extract = 0
        self.n_oov = 0
        self.calls_left = 10 ** 9  # per-search allowance, reset by the harness

    def update_input(self, prev, hist):
        out = dict(prev)
        N = hist.size(1)
        if "off" not in out:
            out["off"] = torch.zeros(N, dtype=torch.long)
        if "code" not in out:
            out["code"] = torch.zeros(N, dtype=torch.long)
        return out

    def _step(self, code, tok):
        V, size = self.vocab_size, self.size
        n = code * V + tok + 1
        shallow = torch.where(n < size, n, size + n % O.DEEP_ROWS)
        deep = size + ((code - size) * V + tok + 1) % O.DEEP_ROWS
        return torch.where(code < size, shallow, deep)

    def calc_idx_log_probs(self, hist, prev, idx):
        self.n_calls += 1
        self.calls_left -= 1
        if self.calls_left < 0:
            raise SearchDoesNotTerminate("language model called more often than the step cap of the harness")
        V = self.vocab_size
        N = hist.size(1)
        if bool((idx > hist.size(0)).any()) or bool((idx < 0).any()):
            raise LMContractBreach(f"calc_idx_log_probs called with idx={idx.tolist()} but hist.size(0)={hist.size(0)}")
        code, off = prev["code"], prev["off"]
        idx_ = idx.expand(N) if idx.dim() == 0 else idx
        if hist.size(0):
            # like a recurrent network: whatever state was handed over consumes the newest token
            tok = hist.gather(0, (idx_ - 1).clamp(min=0).unsqueeze(0)).squeeze(0)
            oov = ((tok < 0) | (tok >= V)) & (idx_ > 0)
            self.n_oov += int(oov.sum().item())
            tok = tok.clamp(0, V - 1)
            code = torch.where(idx_ > 0, self._step(code, tok), code)
        logits = self.rows[code] + self.bias[off]
        return logits, {"code": code, "off": off}

    def extract_by_src(self, prev, src):
        self.n_extract += 1
        return {k: v.index_select(0, src) for k, v in prev.items()}

    def mix_by_mask(self, prev_true, prev_false, mask):
        return {k: torch.where(mask, prev_true[k], prev_false[k]) for k in prev_true}


class ObservedBeamSearch(M.BeamSearch):
    """The real search; the documented per-step hook records what it is shown and changes nothing."""

    # BeamSearch.__call__ is `proxy(forward)` = super(self.__class__, self).__call__, which recurses
    # forever on any subclass (side finding, see the C04 report); go to torch's own __call__.
    __call__ = torch.nn.Module.__call__

    def __init__(self, *args, **kwargs):
        super().__init__(*args, **kwargs)
        self.steps = []

    def update_log_probs_for_step(self, log_probs_prev, log_probs_t, y_prev, y_prev_lens, eos_mask):
        self.steps.append(
            (
                log_probs_prev.tolist(),
                log_probs_t.tolist(),
                y_prev.permute(1, 2, 0).tolist(),  # N, K, S
                y_prev_lens.tolist(),
                eos_mask.tolist(),
            )
        )
        return log_probs_prev, log_probs_t


class ScriptTableLM(M.MixableSequentialLanguageModel):
    """The same threaded-state table model written in the TorchScript subset (no counters, no harness
    exceptions), so that torch.jit.script(BeamSearch(torch.jit.script(lm), ...)) can be explored."""

    def __init__(self, model: O.TableModel):
        super().__init__(model.V)
        self.register_buffer("rows", torch.tensor(model.rows, dtype=torch.float32))
        self.register_buffer("bias", torch.tensor(model.bias, dtype=torch.float32))
        self.size = model.size
        self.deep_rows = O.DEEP_ROWS

    @torch.jit.export
    def update_input(self, prev: Dict[str, torch.Tensor], hist: torch.Tensor) -> Dict[str, torch.Tensor]:
        N = hist.size(1)
        out: Dict[str, torch.Tensor] = {}
        if "off" in prev:
            out["off"] = prev["off"]
        else:
            out["off"] = torch.zeros(N, dtype=torch.long, device=hist.device)
        if "code" in prev:
            out["code"] = prev["code"]
        else:
            out["code"] = torch.zeros(N, dtype=torch.long, device=hist.device)
        return out

    @torch.jit.export
    def calc_idx_log_probs(
        self, hist: torch.Tensor, prev: Dict[str, torch.Tensor], idx: torch.Tensor
    ) -> Tuple[torch.Tensor, Dict[str, torch.Tensor]]:
        V = self.vocab_size
        size = self.size
        N = hist.size(1)
        code = prev["code"]
        off = prev["off"]
        idx_ = idx.expand(N) if idx.dim() == 0 else idx
        if hist.size(0) > 0:
            tok = hist.gather(0, (idx_ - 1).clamp(min=0).unsqueeze(0)).squeeze(0).clamp(0, V - 1)
            n = code * V + tok + 1
            shallow = torch.where(n < size, n, size + n % self.deep_rows)
            deep = size + ((code - size) * V + tok + 1) % self.deep_rows
            code = torch.where(idx_ > 0, torch.where(code < size, shallow, deep), code)
        logits = self.rows[code] + self.bias[off]
        return logits, {"code": code, "off": off}

    @torch.jit.export
    def extract_by_src(self, prev: Dict[str, torch.Tensor], src: torch.Tensor) -> Dict[str, torch.Tensor]:
        return {"code": prev["code"].index_select(0, src), "off": prev["off"].index_select(0, src)}

    @torch.jit.export
    def mix_by_mask(
        self, prev_true: Dict[str, torch.Tensor], prev_false: Dict[str, torch.Tensor], mask: torch.Tensor
    ) -> Dict[str, torch.Tensor]:
        return {
            "code": torch.where(mask, prev_true["code"], prev_false["code"]),
            "off": torch.where(mask, prev_true["off"], prev_false["off"]),
        }
