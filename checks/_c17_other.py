"""C17: error-rate command, subsetting, statistics commands, chunking (worker independence only)."""

import itertools
import math
import os
import random

import torch

from pydrobert.torch import command_line as C

from mc.oracles import cli as O
from checks._c17_common import (IDS, IOS, tok2id, strip, strings, io_flags, distractor_names, save, schedules, real, wipe,
                                fresh_process)
from checks._c17_seams import run_cmd, ok, snapshot, snap_file, write, read

EPS = 1e-6  # printed figures may come out of float32 arithmetic; distinct admissible values differ by far more


# =========================================================================================
# error rates
PAIRS3 = [(["a", "b"], ["a"]), ([], ["a"]), (["a"], []), (["a", "b", "c"], ["c", "b", "a"])]
LISTS = [
    dict(replace={"b": "a"}, ignore=None),
    dict(replace=None, ignore=["c"]),
    dict(replace={"c": "b"}, ignore=["b"]),  # replacement happens first, then removal
    dict(replace={"a": "c", "b": "c"}, ignore=["a"]),
]


def cases_er(tier, seed):
    S1 = strings(1)
    SN = strings(2 if tier == "quick" else 3)
    corp1 = [[(r, h)] for r in SN for h in SN]
    corp2 = [[p, q] for p in itertools.product(S1, S1) for q in itertools.product(S1, S1)]
    corp3 = [[a, b, c] for a in PAIRS3 for b in PAIRS3 for c in PAIRS3]

    def utts(corp):
        return [[IDS[i], list(r), list(h)] for i, (r, h) in enumerate(corp)]

    base = dict(fam="er", prefix="", suffix=".pt", costs=None, batch=100, per_utt=False, distances=False,
                id2token=False, replace=None, ignore=None, layout="sub", out="stdout", swap=False)
    for corp in corp1 + corp2 + corp3:
        for costs in (None, "nist", [1, 2, 3]):
            for batch in ((100,) if len(corp) == 1 else (1, 2, 100)):
                for per_utt in (False, True):
                    yield dict(base, utts=utts(corp), costs=costs, batch=batch, per_utt=per_utt)
        for per_utt, costs in itertools.product((False, True), (None, "nist")):
            yield dict(base, utts=utts(corp), costs=costs, batch=2, per_utt=per_utt, distances=True)
    for corp in corp1[: 169] + corp3:
        for lst, id2token, batch in itertools.product(LISTS, (False, True), (1, 100)):
            yield dict(base, utts=utts(corp), id2token=id2token, swap=id2token and batch == 1, batch=batch, **lst)
    # ref/ and hyp/ hold different utterance sets (missing on either side, on both): every figure is over the
    # matched utterances only
    patterns = (dict(ref=[IDS[0]], hyp=[]), dict(ref=[], hyp=[IDS[1]]), dict(ref=[IDS[2]], hyp=[IDS[0]]))
    for ci, corp in enumerate(corp3):
        for pat, (per_utt, distances) in itertools.product(patterns, itertools.product((False, True), repeat=2)):
            for batch in ((1, 100) if ci % 2 == 0 else (2,)):
                yield dict(base, utts=utts(corp), batch=batch, per_utt=per_utt, distances=distances, missing=pat,
                           warn_missing=True, layout="explicit", costs="nist" if ci % 3 == 0 else None)
        if ci % 4 == 0:
            for pat in patterns:
                yield dict(base, utts=utts(corp), batch=2, distances=True, missing=pat, warn_missing=True,
                           id2token=True, **LISTS[2])
                yield dict(base, utts=utts(corp), distances=True, missing=pat, warn_missing=False)
    for corp in corp3:  # a swap whose source is also ignored; batch size equal to the corpus
        for id2token in (False, True):
            yield dict(base, utts=utts(corp), id2token=id2token, batch=3, replace={"a": "b", "b": "a"}, ignore=["a"])
            yield dict(base, utts=utts(corp), id2token=id2token, batch=3, replace={"a": "b"}, ignore=["a", "b"])
    for corp in corp3[5:21]:
        for (prefix, suffix), (layout, out) in itertools.product(IOS, (("sub", "stdout"), ("explicit", "stdout"),
                                                                       ("explicit", "file"))):
            yield dict(base, utts=utts(corp), prefix=prefix, suffix=suffix, layout=layout, out=out, batch=2)


def eval_er(env, case):
    env.begin(case)
    t2i = tok2id(env.seed)
    prefix, suffix = case["prefix"], case["suffix"]
    rdir, hdir = (env.p("ref"), env.p("hyp")) if case["layout"] == "sub" else (env.p("R"), env.p("H"))
    missing = case.get("missing") or {"ref": [], "hyp": []}
    for u, r, h in case["utts"]:
        if u in missing["ref"]:
            continue
        rt = torch.tensor([[t2i[t], -1, -1] for t in r], dtype=torch.long).view(len(r), 3)
        save(rt, os.path.join(rdir, prefix + u + suffix))
    for u, r, h in reversed(case["utts"]):  # created in another order: the two listings differ
        if u in missing["hyp"]:
            continue
        ht = torch.tensor([t2i[t] for t in h], dtype=torch.long)
        save(ht, os.path.join(hdir, prefix + u + suffix))
    os.makedirs(rdir, exist_ok=True)
    os.makedirs(hdir, exist_ok=True)
    scored = [x for x in case["utts"] if x[0] not in missing["ref"] and x[0] not in missing["hyp"]]
    for name in distractor_names(prefix, suffix):
        save(torch.tensor([0, 0, 0]), os.path.join(rdir, name))
        save(torch.tensor([1]), os.path.join(hdir, name))
    args = [env.dir] if case["layout"] == "sub" else [rdir, hdir]
    outp = env.p("er.txt")
    if case["out"] == "file":
        args.append(outp)
    args += io_flags(prefix, suffix)
    conv = (lambda t: t) if case["id2token"] else (lambda t: t2i[t])
    if case["id2token"]:
        args += ["--id2token", write(env.p("tok.map"), O.token2id_text(t2i, case["swap"]))]
        args += [] if case["swap"] else ["--swap"]
    if case["replace"]:
        args += ["--replace", write(env.p("replace"), "".join(f"{conv(a)} {conv(b)}\n" for a, b in case["replace"].items()))]
    if case["ignore"]:
        args += ["--ignore", write(env.p("ignore"), " ".join(str(conv(t)) for t in case["ignore"]) + "\n")]
    costs = case["costs"]
    if costs == "nist":
        args.append("--nist-costs")
        cost = (3.0, 3.0, 4.0)
    elif costs:
        args += ["--costs"] + list(costs)
        cost = tuple(float(c) for c in costs)
    else:
        cost = (1.0, 1.0, 1.0)
    if case["batch"] != 100:
        args += ["--batch-size", case["batch"]]
    if case["per_utt"]:
        args.append("--per-utt")
    if case["distances"]:
        args.append("--distances")
    args.append("--quiet")
    if case.get("warn_missing"):
        args.append("--warn-missing")
    api = "compute-torch-token-data-dir-error-rates"
    per = O.er_expect([(u, r, h) for u, r, h in scored], case["replace"] or {}, set(case["ignore"] or ()), cost)
    per.sort()
    tot_len = sum(p[1] for p in per)
    empty_ref = any(p[1] == 0 for p in per)
    nontrivial = any(p[3] > 0 for p in per)
    flags = {"per_utt": case["per_utt"], "distances": case["distances"]}
    if missing["ref"] or missing["hyp"]:
        flags["missing"] = ("ref" if missing["ref"] else "") + ("hyp" if missing["hyp"] else "")
    if case.get("fresh"):  # a call with other arguments first: nothing of it may leak into the next one
        run_cmd(C.compute_torch_token_data_dir_error_rates, [rdir, rdir, "--per-utt", "--batch-size", 1, "--quiet",
                                                             "--nist-costs"] + io_flags(prefix, suffix))
    res = run_cmd(C.compute_torch_token_data_dir_error_rates, args)
    env.ev(api, nontrivial=nontrivial)
    if (missing["ref"] or missing["hyp"]) and not case.get("warn_missing"):
        # documented: without --warn-missing a missing transcript is an error
        if ok(res):
            env.viol(dict({"api": api, "symptom": "missing-utterance-not-reported"}, **flags), {"printed": res["out"]})
        return
    if not ok(res):
        if (isinstance(res["exc"], ZeroDivisionError) and tot_len == 0 and not case["per_utt"]
                and not case["distances"]):
            env.ctx.count("er:total-over-zero-reference-tokens (figure undefined, not judged)")
            return
        env.raises(api, res, empty_ref=empty_ref, **flags)
        return
    text = read(outp) if case["out"] == "file" else res["out"]
    lines = [x for x in text.split("\n") if x]
    try:
        if case["per_utt"]:
            got = [(x.split()[0], float(x.split()[1])) for x in lines]
        else:
            (only,) = lines
            got = float(only)
    except Exception:  # noqa: BLE001
        env.viol(dict({"api": api, "symptom": "unparsable-output"}, **flags), {"text": text})
        return
    uniform = cost[0] == cost[1] == cost[2]
    if case["per_utt"]:
        bad = [u for u, _ in got] != [p[0] for p in per]
        for (u, v), (_, n, lo, hi) in zip(got, per):
            den = 1 if case["distances"] else n
            if den == 0:
                continue  # figure over an empty reference: the statement fixes no value
            if not (lo / den - EPS <= v <= hi / den + EPS):
                bad = True
        want = [(p[0], p[2] / (1 if case["distances"] else p[1] or 1), p[3] / (1 if case["distances"] else p[1] or 1))
                for p in per]
    else:
        den = len(per) if case["distances"] else tot_len
        if den == 0:
            env.ctx.count("er:total-over-zero-reference-tokens (figure undefined, not judged)")
            return
        lo, hi = sum(p[2] for p in per) / den, sum(p[3] for p in per) / den
        bad = not (lo - EPS <= got <= hi + EPS)
        want = [lo, hi]
    if bad:
        env.viol(dict({"api": api, "symptom": "wrong-figure", "uniform_costs": uniform, "lists": bool(
            case["replace"] or case["ignore"])}, **flags),
            {"expected_range": want, "observed": got, "per_utterance(utt,ref_len,fewest,most)": per})
        return
    env.ctx.outcome([case["per_utt"], case["distances"], got])
    if case.get("fresh"):
        outf = env.p("er_fresh.txt")
        fargs = [outf if a == outp else a for a in args]
        fresh_process(env, api, "compute_torch_token_data_dir_error_rates", fargs,
                      lambda r: read(outf) if case["out"] == "file" else r["out"], text,
                      "second call with other arguments")
    if len(env.ctx.samples) < 1 and nontrivial:
        env.ctx.sample({"family": "er", "utts": case["utts"], "args": [str(a) for a in args[1:]], "printed": text})


# =========================================================================================
# subsetting
LENS = [[2], [2, 1], [1, 1], [2, 1, 2], [1, 2, 3], [3, 3, 3], [2, 1, 2, 1], [1, 2, 3, 2], [3, 1, 1, 2]]
PRESENCE = ["all", "noali", "some"]
CRITS = ["first", "last", "shortest", "longest", "rand"]


def cases_sub(tier, seed):
    base = dict(fam="sub", prefix="", suffix=".pt", style="link", only=False)
    for lens, pres in itertools.product(LENS, PRESENCE):
        N = len(lens)
        if pres == "some" and N < 3:
            continue
        corp = dict(lens=lens, presence=pres)
        for kind in CRITS:
            for n in (0, 1, 2, 3, 5):
                if n <= N + 1:
                    yield dict(base, crit=kind + "-n", value=n, **corp)
            for r in (0, 0.25, 0.5, 0.75, 1):
                if r in (0, 1) or N >= 2:
                    yield dict(base, crit=kind + "-ratio", value=r, **corp)
        ids = IDS[:N]
        for crit in ("utt-list", "utt-list-file"):
            yield dict(base, crit=crit, value=list(reversed(ids))[: max(1, N - 1)] + ["nope"], **corp)
            yield dict(base, crit=crit, value=[ids[0]], **corp)
    for lens, rank, only in itertools.product((LENS[3], LENS[7]), (1, 3), (False, True)):
        for crit, value in (("shortest-n", 2), ("longest-n", 1), ("shortest-ratio", 0.5), ("first-n", 2)):
            yield dict(base, crit=crit, value=value, lens=lens, presence="all", only=only, rank=rank, style="copy")
    first_real = tier == "thorough"
    for lens in (LENS[3], LENS[7]):
        corp = dict(lens=lens, presence="some")
        for style, only, (prefix, suffix) in itertools.product(("link", "copy", "symlink"), (False, True), IOS):
            for crit, value in (("first-n", 2), ("longest-n", 2), ("utt-list", [IDS[2], IDS[0]]), ("last-ratio", 1)):
                c = dict(base, crit=crit, value=value, style=style, only=only, prefix=prefix, suffix=suffix, **corp)
                if first_real and crit == "longest-n" and prefix and suffix == ".x" and not only:
                    c["real"] = True
                    first_real = False
                yield c


def _sub_observe(dest, src_root, style):
    """listing of dest with, per file, its content and how it relates to the source file"""
    obs = {}
    for dp, dns, fns in os.walk(dest):
        dns.sort()
        rel = os.path.relpath(dp, dest)
        obs[os.path.normpath(rel) + "/"] = "dir"
        for fn in sorted(fns):
            p = os.path.join(dp, fn)
            src = os.path.normpath(os.path.join(src_root, rel, fn))
            kind = "symlink" if os.path.islink(p) else "file"
            info = {"kind": kind}
            if kind == "symlink":
                tgt = os.readlink(p)
                info["relative"] = not os.path.isabs(tgt)
                info["resolves_to_source"] = os.path.realpath(p) == os.path.realpath(src)
            else:
                info["same_inode_as_source"] = os.path.exists(src) and os.stat(p).st_ino == os.stat(src).st_ino
            try:
                with open(p, "rb") as f, open(src, "rb") as g:
                    info["identical_bytes"] = f.read() == g.read()
            except OSError:
                info["identical_bytes"] = False
            obs[os.path.normpath(os.path.join(rel, fn))] = info
    return obs


def eval_sub(env, case):
    env.begin(case)
    prefix, suffix, only = case["prefix"], case["suffix"], case["only"]
    lens, pres = case["lens"], case["presence"]
    N = len(lens)
    ids = case.get("ids") or IDS[:N]
    src, dest = env.p("src"), env.p("dest")
    rng = random.Random(env.seed * 1009 + N)
    have = {"feat": set(ids), "ali": set(), "ref": set()}
    for i, (u, T) in enumerate(zip(ids, lens)):
        name = prefix + u + suffix
        ft = torch.tensor([[rng.randrange(-8, 9) / 4.0, float(i)] for _ in range(T)])
        if case.get("rank") == 1:
            ft = ft[:, 0].contiguous()
        elif case.get("rank") == 3:
            ft = ft.unsqueeze(1).expand(T, 3, 2).contiguous()
        save(ft, os.path.join(src, "feat", name))
        if pres == "all" or (pres == "some" and i % 2 == 0):
            save(torch.tensor([i % 3] * T), os.path.join(src, "ali", name))
            have["ali"].add(u)
        if pres != "some" or i % 2 == 1:
            save(torch.tensor([[i % 3, 0, T]]), os.path.join(src, "ref", name))
            have["ref"].add(u)
    if pres != "noali":  # an utterance in ali/ that feat/ does not have: must be ignored
        save(torch.tensor([1]), os.path.join(src, "ali", prefix + "zz9" + suffix))
    for name in distractor_names(prefix, suffix):
        save(torch.zeros(1, 2), os.path.join(src, "feat", name))
    srcarg = os.path.join(src, "feat") if only else src
    args = [srcarg, dest] + io_flags(prefix, suffix)
    crit, value = case["crit"], case["value"]
    if crit == "utt-list":
        args += ["--utt-list"] + list(value)
    elif crit == "utt-list-file":
        args += ["--utt-list-file", write(env.p("utts.txt"), "".join(u + "\n" for u in value))]
    else:
        args += ["--" + crit, value]
    if crit.startswith("rand"):
        args += ["--seed", 3]
    if case["style"] != "link":
        args.append("--" + case["style"])
    if only:
        args.append("--only")
    api = "subset-torch-spect-data-dir"
    flags = {"criterion": crit.rsplit("-", 1)[0] if not crit.startswith("utt") else crit, "style": case["style"],
             "only": only}
    if case.get("fresh"):  # a call with other arguments first: nothing of it may leak into the next one
        run_cmd(C.subset_torch_spect_data_dir, [srcarg, env.p("dest_other"), "--last-n", 1, "--copy", "--num-workers", 0]
                + io_flags(prefix, suffix) + (["--only"] if only else []))
    res = run_cmd(C.subset_torch_spect_data_dir, args + ["--num-workers", 0])
    want = O.subset_expect(ids, dict(zip(ids, lens)), crit, value)
    env.ev(api, nontrivial=(want[1] if isinstance(want, tuple) else len(want)) not in (0, N))
    if not ok(res):
        env.raises(api, res, **flags)
        return
    base = _sub_observe(dest, srcarg, case["style"])
    subdirs = [""] if only else [s for s in ("feat", "ali", "ref") if os.path.isdir(os.path.join(src, s))]
    got_sets = {}
    for sd in subdirs:
        dkey = os.path.normpath(sd or ".") + "/"
        if dkey not in base:
            env.viol(dict({"api": api, "symptom": "missing-subdirectory"}, **flags), {"subdir": sd, "observed": base})
            return
        got_sets[sd] = sorted(k for k, v in base.items() if v != "dir" and os.path.dirname(k) == sd)
    sel = sorted(strip(os.path.basename(k), prefix, suffix) for k in got_sets[subdirs[0]])
    if isinstance(want, tuple):
        good = len(sel) == want[1] and len(set(sel)) == len(sel) and set(sel) <= set(ids)
    else:
        good = sel == sorted(want)
    extra_dirs = [k for k, v in base.items() if v == "dir" and k.rstrip("/") not in [os.path.normpath(s or ".") for s in subdirs]
                  and k != "./"]
    if not good:
        env.viol(dict({"api": api, "symptom": "wrong-selection"}, **flags),
                 {"expected": want, "selected": sel, "all_ids": ids, "lengths": lens})
        return
    for sd in subdirs[1:]:
        exp = sorted(os.path.join(sd, prefix + u + suffix) for u in sel if u in have[sd])
        if got_sets[sd] != exp:
            env.viol(dict({"api": api, "symptom": "wrong-companion-files"}, **flags),
                     {"subdir": sd, "expected": exp, "observed": got_sets[sd]})
            return
    if extra_dirs:
        env.viol(dict({"api": api, "symptom": "unexpected-directory"}, **flags), {"observed": extra_dirs})
        return
    for k, v in base.items():
        if v == "dir":
            continue
        if case["style"] == "symlink":
            good = v["kind"] == "symlink" and v["relative"] and v["resolves_to_source"] and v["identical_bytes"]
        elif case["style"] == "copy":
            good = v["kind"] == "file" and not v["same_inode_as_source"] and v["identical_bytes"]
        else:
            good = v["kind"] == "file" and v["same_inode_as_source"] and v["identical_bytes"]
        if not good:
            env.viol(dict({"api": api, "symptom": "file-not-identical-or-wrong-link-style"}, **flags), {"file": k, "observed": v})
            return
    env.ctx.outcome([sel, case["style"], only])
    if case.get("fresh"):
        d3 = env.p("dest_fresh")
        fresh_process(env, api, "subset_torch_spect_data_dir", [srcarg, d3] + args[2:] + ["--num-workers", 0],
                      lambda r: _sub_observe(d3, srcarg, case["style"]), base, "second call with other arguments")

    def reset():
        wipe(dest)

    if not (crit.startswith("last") or crit.startswith("rand") or crit == "utt-list-file") or case["style"] != "link":
        # the selection is computed in the parent before the pool starts; last-*/rand-*/list-file differ
        # from first-*/utt-list only there, so their schedules are explored in the style pass only
        schedules(env, api, C.subset_torch_spect_data_dir, args, reset,
                  lambda r: _sub_observe(dest, srcarg, case["style"]), base, flags=flags)
    if case.get("real"):
        d2 = env.p("dest_real")
        real(env, api, "subset_torch_spect_data_dir", [srcarg, d2] + args[2:],
             lambda r: _sub_observe(d2, srcarg, case["style"]), base)
    if len(env.ctx.samples) < 1 and 0 < len(sel) < N:
        env.ctx.sample({"family": "subset", "ids": ids, "lengths": lens, "args": [str(a) for a in args[2:]],
                        "selected": sel})


# =========================================================================================
# statistics
def cases_stat(tier, seed):
    first_real = {"mvn": tier == "thorough", "alimom": tier == "thorough", "refmom": tier == "thorough",
                  "chunk": tier == "thorough"}

    def mark(c):
        if first_real.get(c["kind"]) and c.get("n", 0) == 3:
            c["real"] = True
            first_real[c["kind"]] = False
        return c

    tsets = [[2], [1, 1], [1, 2], [3, 1, 2], [2, 2, 2], [1, 1, 1]]
    # (rank, position of the feature dimension, how --dim is spelled): the help admits tensors of any rank
    layouts = [(3, 2, "default"), (3, 2, "pos"), (3, 2, "neg"), (3, 1, "pos"), (3, 1, "neg"), (3, 0, "pos"), (3, 0, "neg"),
               (2, 1, "pos"), (2, 1, "neg"), (2, 0, "neg"), (1, 0, "default"), (1, 0, "pos"), (1, 0, "neg")]
    for (k, Ts), layout, bessel in itertools.product(enumerate(tsets), layouts, (False, True)):
        prefix, suffix = IOS[(k + layout[1] + bessel) % 4]
        for groups in (None, "two"):
            if groups == "two" and len(Ts) < 3:
                continue
            yield dict(fam="stat", kind="mvn", Ts=Ts, n=len(Ts), prefix=prefix, suffix=suffix, bessel=bessel,
                       groups=groups, dim=None, layout=list(layout))
    for Ts in tsets:
        for (prefix, suffix), bessel in itertools.product(IOS, (False, True)):
            for groups, dim in ((None, -1), (None, 0), ("two", -1), ("each", -1)):
                if groups == "each" and (min(Ts) < 2 or len(Ts) < 2):
                    continue
                if groups == "two" and (len(Ts) < 3):
                    continue
                if dim == 0 and len(set(Ts)) > 1:
                    continue
                yield mark(dict(fam="stat", kind="mvn", Ts=Ts, n=len(Ts), prefix=prefix, suffix=suffix, bessel=bessel,
                                groups=groups, dim=dim))
    # alignment / reference segment-length moments
    Tmax = 3 if tier == "quick" else 4
    alis = [[list(p)] for T in range(1, Tmax + 1) for p in itertools.product((0, 1, 2), repeat=T)]
    menu = [[0], [1, 1, 0], [2, 0, 2, 2], [0, 1], [1, 1, 1, 1]]
    alis += [[a, b] for a in menu for b in menu] + [[a, b, c] for a in menu[:3] for b in menu[2:] for c in menu[1:4]]
    for corp in alis:
        for k, (prefix, suffix) in enumerate(IOS):
            for bessel, std in itertools.product((False, True), repeat=2):
                for exclude in (None, [0], [1, 2]):
                    if len(corp) == 1 and (k + bessel + std) % 2 and tier == "quick":
                        continue
                    yield mark(dict(fam="stat", kind="alimom", alis=corp, n=len(corp), prefix=prefix, suffix=suffix,
                                    bessel=bessel, std=std, exclude=exclude, precision=None if k % 2 == 0 else 1))
    # reference segments: reuse the run structure, then knock out some boundaries
    for ci, corp in enumerate(alis):
        if len(corp) == 1 and len(corp[0]) > 3:
            continue
        refs = []
        for ui, a in enumerate(corp):
            rows = [list(r) for r in O.runs(a)]
            if (ci + ui) % 3 == 0 and rows:
                rows[0][1] = rows[0][2] = -1  # boundaries unknown: dropped (with a warning unless --quiet)
            if (ci + ui) % 4 == 1:
                rows.append([1, len(a), len(a)])  # a zero-length segment counts with length 0
            refs.append(rows)
        for k, (prefix, suffix) in enumerate(IOS):
            if len(corp) == 1 and k % 3:
                continue
            for bessel, std, exclude in ((False, False, None), (True, False, [0]), (False, True, [1, 2]), (True, True, None)):
                yield mark(dict(fam="stat", kind="refmom", refs=refs, n=len(refs), prefix=prefix, suffix=suffix,
                                bessel=bessel, std=std, exclude=exclude, precision=None if k % 2 else 2))
    # info
    for lens, pres in itertools.product(LENS, ("all", "noali", "some", "flat")):
        if pres == "some" and len(lens) < 3:
            continue
        for k, (prefix, suffix) in enumerate(IOS):
            yield dict(fam="stat", kind="info", lens=lens, presence=pres, prefix=prefix, suffix=suffix,
                       out="file" if k % 2 else "stdout", strict=k >= 2)
    # chunking: only "same files whatever the workers do" (content belongs to C10)
    for lens in ([3], [2, 4], [3, 1, 4]):
        for (prefix, suffix), lobe in itertools.product(IOS, (0, 1)):
            c = mark(dict(fam="stat", kind="chunk", lens=lens, n=len(lens), prefix=prefix, suffix=suffix, lobe=lobe))
            if len(lens) == 2 and prefix == "p_" and suffix == ".x":
                c["fresh"] = True
            yield c


def _close(a, b, tol=1e-5):
    return abs(a - b) <= tol * max(1.0, abs(a), abs(b))


def _eval_mvn(env, case):
    prefix, suffix, Ts, dim = case["prefix"], case["suffix"], case["Ts"], case["dim"]
    d, out = env.p("feat"), env.p("stats.pt")
    rng = random.Random(env.seed * 7919 + sum(Ts) * 31 + len(Ts))
    ids = IDS[: len(Ts)]
    vecs = {}
    rank, pos, spell = case.get("layout") or ((2, 1, "default") if dim == -1 else (2, 0, "pos"))
    CH = 3  # size of the extra (channel) dimension of rank-3 files
    for u, T in zip(ids, Ts):
        n = {1: 1, 2: T, 3: T * CH}[rank]
        x = [[rng.randrange(-16, 17) / 4.0, rng.randrange(-4, 5) / 2.0] for _ in range(n)]
        vecs[u] = x
        t = torch.tensor(x).view(*{1: (2,), 2: (T, 2), 3: (T, CH, 2)}[rank])
        save(t.movedim(-1, pos).contiguous(), os.path.join(d, prefix + u + suffix))
    for name in distractor_names(prefix, suffix):
        save(torch.full((3, 2), 99.0), os.path.join(d, name))
    args = [d, out] + io_flags(prefix, suffix) + (["--bessel"] if case["bessel"] else [])
    if spell != "default":
        args += ["--dim", pos if spell == "pos" else pos - rank]
    gmap = None
    if case["groups"] == "two":
        gmap = {u: ("g0" if i == 0 else "g1") for i, u in enumerate(ids)}
    elif case["groups"] == "each":
        gmap = {u: "g" + str(i) for i, u in enumerate(ids)}
    if gmap:
        args += ["--id2gid", write(env.p("id2gid"), "".join(f"{u} {g}\n" for u, g in gmap.items()))]
    api = "compute-mvn-stats-for-torch-feat-data-dir"
    flags = {"bessel": case["bessel"], "grouped": gmap is not None, "rank": rank}
    res = run_cmd(C.compute_mvn_stats_for_torch_feat_data_dir, args + ["--num-workers", 0])
    env.ev(api)
    groups = {}
    for u in ids:
        groups.setdefault(gmap[u] if gmap else None, []).extend(vecs[u])
    if any(len(v) < 2 for v in groups.values()):
        env.ctx.count("mvn:single-frame group skipped (F20 belongs to C18)")
        return
    if not ok(res):
        env.raises(api, res, **flags)
        return
    got = torch.load(out)
    want = {g: O.pooled_mean_std(v, case["bessel"]) for g, v in groups.items()}
    if gmap is None:
        got = {None: got}
    bad = sorted(map(str, got)) != sorted(map(str, want))
    if not bad:
        for g, (m, s) in want.items():
            gm, gs = got[g]["mean"].tolist(), got[g]["std"].tolist()
            if len(gm) != 2 or len(gs) != 2 or any(not _close(a, b) for a, b in zip(gm + gs, m + s)):
                bad = True
    if bad:
        env.viol(dict({"api": api, "symptom": "wrong-moments"}, **flags),
                 {"expected(mean,std)": {str(k): v for k, v in want.items()}, "observed": snap_file(out)})
        return
    base = snap_file(out)
    env.ctx.outcome(base)
    schedules(env, api, C.compute_mvn_stats_for_torch_feat_data_dir, args, lambda: wipe(out),
              lambda r: snap_file(out), base, chunks=(None,), flags=flags)
    if case.get("real"):
        out2 = env.p("stats_real.pt")
        real(env, api, "compute_mvn_stats_for_torch_feat_data_dir", [d, out2] + args[2:],
             lambda r: snap_file(out2), base, loader=True)


def _parse_moments(text):
    text = text.strip()
    a, b = text.split(" (")
    b = b.rstrip(")")
    return a, b


def _moment_ok(printed, want, precision):
    if want is None:
        return printed == "n/a"
    if printed == "n/a" or len(printed.split(".")[-1]) != precision:
        return False
    return abs(float(printed) - want) <= 0.5 * 10 ** -precision + 1e-7


def _eval_moments(env, case):
    prefix, suffix = case["prefix"], case["suffix"]
    d = env.p("data")
    is_ali = case["kind"] == "alimom"
    seqs = case["alis"] if is_ali else case["refs"]
    ids = IDS[: len(seqs)]
    excl = set(case["exclude"] or ())
    lens = []
    for u, x in zip(ids, seqs):
        if is_ali:
            save(torch.tensor(x), os.path.join(d, prefix + u + suffix))
            lens += [e - s for lab, s, e in O.runs(x) if lab not in excl]
        else:
            save(torch.tensor(x, dtype=torch.long).view(len(x), 3), os.path.join(d, prefix + u + suffix))
            lens += [e - s for lab, s, e in x if lab not in excl and 0 <= s <= e]
    for name in distractor_names(prefix, suffix):
        save(torch.tensor([7] * 9) if is_ali else torch.tensor([[7, 0, 9]]), os.path.join(d, name))
    precision = 3 if case["precision"] is None else case["precision"]
    args = [d] + io_flags(prefix, suffix) + (["--bessel"] if case["bessel"] else []) + (["--std"] if case["std"] else [])
    if case["precision"] is not None:
        args += ["--precision", precision]
    if not is_ali:
        args.append("--quiet")
    if case["exclude"]:
        args += ["--exclude-ids"] + list(case["exclude"])
    func = C.print_torch_ali_data_dir_length_moments if is_ali else C.print_torch_ref_data_dir_length_moments
    api = "print-torch-ali-data-dir-length-moments" if is_ali else "print-torch-ref-data-dir-length-moments"
    flags = {"bessel": case["bessel"], "std": case["std"], "exclude": bool(case["exclude"])}
    res = run_cmd(func, args + ["--num-workers", 0])
    env.ev(api, nontrivial=len(set(lens)) > 1)
    if not ok(res):
        env.raises(api, res, **flags)
        return
    wm, wv = O.length_moments(lens, case["bessel"], case["std"])
    try:
        pm, pv = _parse_moments(res["out"])
        good = _moment_ok(pm, wm, precision) and _moment_ok(pv, wv, precision)
    except Exception:  # noqa: BLE001
        good = False
    if not good:
        env.viol(dict({"api": api, "symptom": "wrong-moments"}, **flags),
                 {"segment_lengths": lens, "expected(mean,spread)": [wm, wv], "printed": res["out"]})
        return
    env.ctx.outcome(res["out"])
    if not (case["bessel"] or case["std"]) or len(seqs) == 3:
        # --bessel/--std only act on the final print, after all worker results were summed; schedules are
        # explored with both flags off and, for three utterances, with every flag combination
        schedules(env, api, func, args, lambda: None, lambda r: r["out"], res["out"], flags=flags)
    if case.get("real"):
        real(env, api, func.__name__, args, lambda r: r["out"], res["out"])
    if len(env.ctx.samples) < 1 and len(set(lens)) > 1:
        env.ctx.sample({"family": "moments", "api": api, "lengths": lens, "printed": res["out"]})


def _eval_info(env, case):
    prefix, suffix, lens, pres = case["prefix"], case["suffix"], case["lens"], case["presence"]
    src = env.p("src")
    ids = IDS[: len(lens)]
    utts = []
    for i, (u, T) in enumerate(zip(ids, lens)):
        name = prefix + u + suffix
        save(torch.zeros(T, 3), os.path.join(src, "feat", name))
        rec = dict(id=u, T=T, F=3, ali=None, ref=None)
        if pres != "noali":
            rec["ali"] = [(i + t // 2) % 3 for t in range(T)]
            save(torch.tensor(rec["ali"]), os.path.join(src, "ali", name))
        if pres == "flat":
            rec["ref"] = [(i + 1) % 4] * (1 + i % 2)
            save(torch.tensor(rec["ref"]), os.path.join(src, "ref", name))
        elif pres != "some" or i % 2 == 0:
            rec["ref"] = [[(i + 1) % 4, 0, T]] if T < 2 else [[i % 4, 0, 1], [4, 1, T]]
            save(torch.tensor(rec["ref"]), os.path.join(src, "ref", name))
        else:
            continue  # a data set lists only utterances present in every existing subdirectory
        utts.append(rec)
    for name in distractor_names(prefix, suffix):
        save(torch.zeros(5, 3), os.path.join(src, "feat", name))
    outp = env.p("info.txt")
    args = [src] + ([outp] if case["out"] == "file" else []) + io_flags(prefix, suffix) + (["--strict"] if case["strict"] else [])
    api = "get-torch-spect-data-dir-info"
    res = run_cmd(C.get_torch_spect_data_dir_info, args)
    env.ev(api)
    if not ok(res):
        env.raises(api, res, strict=case["strict"])
        return
    text = read(outp) if case["out"] == "file" else res["out"]
    got = {}
    for line in text.split("\n"):
        if line:
            k, v = line.split()
            got[k] = int(v)
    want = O.info_expect(utts)
    if got != want or list(got) != sorted(got):
        env.viol({"api": api, "symptom": "wrong-info", "strict": case["strict"]}, {"expected": want, "observed": got})
        return
    env.ctx.outcome(got)


def _eval_chunk(env, case):
    prefix, suffix, lens = case["prefix"], case["suffix"], case["lens"]
    src, dest = env.p("src"), env.p("dest")
    ids = IDS[: len(lens)]
    for i, (u, T) in enumerate(zip(ids, lens)):
        name = prefix + u + suffix
        save(torch.arange(T * 2, dtype=torch.float).view(T, 2) + i, os.path.join(src, "feat", name))
        save(torch.tensor([(i + t) % 3 for t in range(T)]), os.path.join(src, "ali", name))
    args = [src, dest] + io_flags(prefix, suffix) + ["--lobe-size", case["lobe"], "--quiet"]
    api = "chunk-torch-spect-data-dir"
    if case.get("fresh"):  # a call with other arguments first: nothing of it may leak into the next one
        run_cmd(C.chunk_torch_spect_data_dir, [src, env.p("dest_other")] + io_flags(prefix, suffix)
                + ["--lobe-size", 1 - case["lobe"], "--window-type", "causal", "--quiet", "--num-workers", 0])
    res = run_cmd(C.chunk_torch_spect_data_dir, args + ["--num-workers", 0])
    env.ev(api)
    if not ok(res):
        env.ctx.count("chunk:serial run fails (content and crashes of chunking belong to C10)")
        return
    base = snapshot(dest)
    env.ctx.outcome(base)
    if case.get("fresh"):
        d3 = env.p("dest_fresh")
        fresh_process(env, api, "chunk_torch_spect_data_dir", [src, d3] + args[2:] + ["--num-workers", 0],
                      lambda r: snapshot(d3), base, "second call with other arguments")
    schedules(env, api, C.chunk_torch_spect_data_dir, args, lambda: wipe(dest), lambda r: snapshot(dest), base)
    if case.get("real"):
        d2 = env.p("dest_real")
        real(env, api, "chunk_torch_spect_data_dir", [src, d2] + args[2:], lambda r: snapshot(d2), base)


def eval_stat(env, case):
    env.begin(case)
    {"mvn": _eval_mvn, "alimom": _eval_moments, "refmom": _eval_moments, "info": _eval_info,
     "chunk": _eval_chunk}[case["kind"]](env, case)
