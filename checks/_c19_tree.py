"""C19 helper: exhaustive draw trees for the direct / importance-sampling / enumeration /
Metropolis-Hastings estimators.  Every torch.bernoulli / torch.multinomial / torch.rand call
made by the library is answered with every outcome by the explorer (mc/explore.py + mc/seams.py)
and the path probabilities are carried along, so expectations over the whole tree are exact.
"""

import math
import random

import torch

import pydrobert.torch.distributions as D
import pydrobert.torch.estimators as E

from mc.explore import explore, Chooser, HarnessError
from mc.runner import h64
from mc.seams import ScriptedRandom, MENU_QUICK, MENU_FULL, ONE_M
from mc.oracles import estimators as O

TOL = 1e-5
DT = {"float32": torch.float32, "float64": torch.float64}


def close(a, b, tol=TOL):
    if a != a or b != b:
        return False
    return abs(a - b) <= tol * max(1.0, abs(a), abs(b))


def r3(rng, lo, hi):
    return round(rng.uniform(lo, hi), 3)


def rng_for(seed, *tag):
    return random.Random("c19|%d|%s" % (seed, "|".join(str(t) for t in tag)))


# ---------------------------------------------------------------------------------------
# oracle-side view of a harness proposal spec
def oracle_spec(ps, theta_key="theta"):
    k = ps["kind"]
    if k in ("bern_joint", "bern_elem"):
        return {"kind": "bern", "par": ps["par"], "theta": ps[theta_key], "const": ps.get("const") or {}}
    if k in ("onehot", "cat"):
        return {"kind": "cat", "par": ps["par"], "theta": ps[theta_key], "masked": ps.get("masked") or []}
    if k == "srswor":
        return {"kind": "srswor", "T": ps["T"], "L": ps["L"], "out": ps["out"]}
    raise ValueError(k)


def nbits(ps):
    return ps["out"] if ps["kind"] == "srswor" else len(ps["theta"])


def g_value(ps, fs, b, is_log):
    """linear-space value of the function spec ``fs`` on support element ``b`` (plain Python).
    bern_elem: list with one value per variable."""
    k = ps["kind"]
    shift = 0.0 if is_log else 2.0
    kind = fs["kind"]
    if kind == "view":
        # the callable returns its argument or a view of it (identity, .to(same dtype), slice,
        # squeeze); in log mode that tensor is log f, so the linear-space value is exp of it
        lin = (lambda x: math.exp(x)) if is_log else (lambda x: float(x))
        if k == "bern_elem":
            return [lin(v) for v in b]
        if k == "onehot":
            return lin(1.0 if b == 0 else 0.0)
        return lin(b[0])
    if k in ("bern_joint", "srswor"):
        if kind == "table":
            return fs["vals"][O.bits_index(b)]
        if kind == "struct":
            return 1.0 + (sum((i + 1) * v for i, v in enumerate(b)) - 1.5) ** 2 - shift
        return fs["d"] + sum(a * v for a, v in zip(fs["a"], b))
    if k == "bern_elem":
        if kind == "table":
            return [fs["vals"][i][v] for i, v in enumerate(b)]
        if kind == "struct":
            return [1.0 + ((i + 1) * v - 0.5) ** 2 - shift for i, v in enumerate(b)]
        return [fs["d"] + fs["a"][i] * v for i, v in enumerate(b)]
    # classes
    if kind == "table":
        return fs["vals"][b]
    if kind == "struct":
        return 1.0 + (b - 0.5) ** 2 - shift
    if k == "onehot":
        return fs["d"] + fs["a"][b]
    return fs["d"] + fs["a"][0] * b


def torch_fn(ps, fs, is_log, dtype, theta=None):
    """the callable handed to the library (torch ops on sample tensors); log of the linear-space
    value when is_log"""
    k = ps["kind"]
    n = nbits(ps)
    shift = 0.0 if is_log else 2.0
    kind = fs["kind"]
    if kind == "view":
        how = fs["how"]
        if how == "identity":
            return lambda b: b
        if how == "to":
            return lambda b: b.to(b.dtype)  # a no-op conversion hands back the very same tensor
        if how == "slice":
            return lambda b: b[..., 0]
        if how == "squeeze":
            return lambda b: b.squeeze(-1)
        raise ValueError(how)
    if k in ("bern_joint", "srswor"):
        if kind == "table":
            tab = torch.tensor([float("nan") if v is None else v for v in fs["vals"]], dtype=dtype)
            pw = torch.tensor([float(1 << i) for i in range(n)], dtype=dtype)
            lin = lambda b: tab[(b.to(dtype) * pw).sum(-1).long()]
        elif kind == "struct":
            ar = torch.arange(1, n + 1, dtype=dtype)
            lin = lambda b: 1.0 + ((b.to(dtype) * ar).sum(-1) - 1.5) ** 2 - shift
        else:
            a = torch.tensor(fs["a"], dtype=dtype)
            lin = lambda b: fs["d"] + (b.to(dtype) * a).sum(-1)
    elif k == "bern_elem":
        if kind == "table":
            t0 = torch.tensor([v[0] for v in fs["vals"]], dtype=dtype)
            t1 = torch.tensor([v[1] for v in fs["vals"]], dtype=dtype)
            lin = lambda b: t0 + (t1 - t0) * b.to(dtype)
        elif kind == "struct":
            ar = torch.arange(1, n + 1, dtype=dtype)
            lin = lambda b: 1.0 + (b.to(dtype) * ar - 0.5) ** 2 - shift
        else:
            a = torch.tensor(fs["a"], dtype=dtype)
            lin = lambda b: fs["d"] + a * b.to(dtype)
    elif k == "onehot":
        if kind == "table":
            t = torch.tensor(fs["vals"], dtype=dtype)
            lin = lambda b: (b.to(dtype) * t).sum(-1)
        elif kind == "struct":
            ar = torch.arange(n, dtype=dtype)
            lin = lambda b: 1.0 + ((b.to(dtype) * ar).sum(-1) - 0.5) ** 2 - shift
        else:
            a = torch.tensor(fs["a"], dtype=dtype)
            lin = lambda b: fs["d"] + (b.to(dtype) * a).sum(-1)
    else:  # cat
        if kind == "table":
            t = torch.tensor(fs["vals"], dtype=dtype)
            lin = lambda b: t[b]
        elif kind == "struct":
            lin = lambda b: 1.0 + (b.to(dtype) - 0.5) ** 2 - shift
        else:
            lin = lambda b: fs["d"] + fs["a"][0] * b.to(dtype)
    dep = fs.get("dep")
    if dep:
        # the function itself depends on the parameters of the distribution the expectation is
        # taken over (as in variational objectives): f_theta(b) = f(b) * (1 + dep * sum(theta))
        base = lin
        lin = lambda b: base(b) * (1.0 + dep * theta.sum())
    if is_log:
        return lambda b: lin(b).log()
    return lin


def support_tensor(ps, support, dtype):
    """oracle support elements as a tensor of samples (leading dim = support index)"""
    k = ps["kind"]
    if k in ("bern_joint", "bern_elem", "srswor"):
        return torch.tensor([[float(v) for v in b] for b in support], dtype=dtype)
    if k == "onehot":
        V = len(ps["theta"])
        return torch.eye(V, dtype=dtype)[torch.tensor(support)]
    return torch.tensor(support)


def build_dist(ps, dtype, theta_key="theta", theta=None):
    """(distribution, leaf parameter tensor or None).  ``theta``: reuse an existing parameter
    tensor (two distribution objects over the same parameters); ps["validate"] == False turns
    torch's argument/sample validation off."""
    k = ps["kind"]
    va = None if ps.get("validate", True) else False
    if k == "srswor":
        return D.SimpleRandomSamplingWithoutReplacement(ps["L"], ps["T"], ps["out"], validate_args=va), None
    if theta is None:
        vals = list(ps[theta_key])
        for i in ps.get("masked") or []:  # don't-care classes: logit exactly -inf / probability exactly 0
            vals[int(i)] = -math.inf if ps["par"] == "logits" else 0.0
        theta = torch.tensor(vals, dtype=dtype, requires_grad=True)
    if k in ("bern_joint", "bern_elem"):
        const = ps.get("const") or {}
        if const:
            probs = theta.sigmoid() if ps["par"] == "logits" else theta
            m0 = torch.tensor([float(const.get(str(i), const.get(i, -1))) == 0.0 for i in range(len(ps[theta_key]))])
            m1 = torch.tensor([float(const.get(str(i), const.get(i, -1))) == 1.0 for i in range(len(ps[theta_key]))])
            probs = probs.masked_fill(m0, 0.0).masked_fill(m1, 1.0)
            base = torch.distributions.Bernoulli(probs=probs, validate_args=va)
        elif ps["par"] == "logits":
            base = torch.distributions.Bernoulli(logits=theta, validate_args=va)
        else:
            base = torch.distributions.Bernoulli(probs=theta, validate_args=va)
        if k == "bern_joint":
            return torch.distributions.Independent(base, 1, validate_args=va), theta
        return base, theta
    cls = torch.distributions.OneHotCategorical if k == "onehot" else torch.distributions.Categorical
    if ps["par"] == "logits":
        return cls(logits=theta, validate_args=va), theta
    return cls(probs=theta, validate_args=va), theta


class ShiftedDensity:
    """unnormalised density: log_prob of a distribution plus a constant"""

    def __init__(self, dist, shift):
        self.dist, self.shift = dist, shift

    def log_prob(self, value):
        return self.dist.log_prob(value) + self.shift


class CondBernoulliDensity:
    """unnormalised density exp(theta . b + shift) on fixed-cardinality binary vectors"""

    def __init__(self, theta, shift):
        self.theta, self.shift = theta, shift

    def log_prob(self, value):
        return (value.to(self.theta.dtype)[..., : self.theta.numel()] * self.theta).sum(-1) + self.shift


def cv_mean_tensor(ps, dist, cs, support, mass, is_log, dtype):
    """mu_c = sum_b P(b) c(b) as a DIFFERENTIABLE function of the proposal's parameters"""
    k = ps["kind"]
    cvals = [g_value(ps, cs, b, is_log) for b in support]
    if k == "srswor":
        mu = torch.tensor(O.expectation(mass, cvals), dtype=dtype)
    elif k == "bern_elem":
        n = len(ps["theta"])
        p1 = dist.probs
        c0 = torch.tensor([g_value(ps, cs, tuple([0] * n), is_log)[i] for i in range(n)], dtype=dtype)
        c1 = torch.tensor([g_value(ps, cs, tuple([1] * n), is_log)[i] for i in range(n)], dtype=dtype)
        mu = p1 * c1 + (1 - p1) * c0
    else:
        sup = support_tensor(ps, support, dtype)
        mu = (dist.log_prob(sup).exp() * torch.tensor(cvals, dtype=dtype)).sum(0)
    return mu.log() if is_log else mu


# ---------------------------------------------------------------------------------------
class ScriptedRandom(ScriptedRandom):  # noqa: F811 - same seam, fresh result tensors
    """mc.seams.ScriptedRandom builds its answers with ``.view(shape)``; inside
    ``Distribution.sample`` (no_grad) that makes the sample a *view created in no_grad mode*, on
    which autograd forbids in-place writes - the real torch.bernoulli / torch.multinomial return
    fresh tensors, which an estimator CAN silently overwrite.  Cloning restores that behaviour."""

    def bernoulli(self, *a, **kw):
        return super().bernoulli(*a, **kw).clone()

    def multinomial(self, *a, **kw):
        return super().multinomial(*a, **kw).clone()


class Guard:
    """Wraps a user callback (func / cv): remembers a copy of every tensor handed in and every
    tensor produced, so that after the estimator has returned one can tell whether the estimator
    wrote into tensors that belong to the caller."""

    def __init__(self, name, fn):
        self.name, self.fn, self.log = name, fn, []

    def __call__(self, b):
        b0 = b.detach().clone()
        out = self.fn(b)
        self.log.append((b, b0, out, out.detach().clone()))
        return out

    def modified(self):
        for b, b0, out, out0 in self.log:
            if b.shape != b0.shape or not torch.equal(b.detach(), b0):
                return self.name + "-input", b0.tolist(), b.detach().tolist()
            if out.shape != out0.shape or not torch.equal(out.detach(), out0):
                return self.name + "-output", out0.tolist(), out.detach().tolist()
        return None


def _record_tree(ctx, cid, ch):
    choices = ch.choices
    start = max(0, len(ch.prefix) - 1) if ch.prefix else 0
    if not ch.prefix:
        ctx.state(hash((cid,)))
    for i in range(start, len(choices)):
        ctx.state(hash((cid,) + tuple(choices[: i + 1])))
    ctx.transitions += len(choices) - start


def cfg_sig(cfg, **kw):
    s = {"api": cfg.get("est", cfg["fam"]), "proposal": cfg["prop"]["kind"], "is_log": cfg.get("is_log", False)}
    if cfg.get("share"):
        s["share"] = cfg["share"]
    if cfg["f"].get("kind") == "view":
        s["func_returns_view"] = cfg["f"]["how"]
    if cfg["prop"].get("validate", True) is False:
        s["validate_args"] = False
    if cfg["prop"].get("masked"):
        s["masked_" + cfg["prop"]["par"]] = True
    s.update(kw)
    return s


def run_tree(ctx, cfg):
    """One configuration of the direct / importance-sampling / enumeration estimator: explore the
    whole draw tree, compare E[value] and E[grad value] with the exact enumeration."""
    est, ps, fs, cs = cfg["est"], cfg["prop"], cfg["f"], cfg.get("cv")
    N, is_log, dtype = cfg.get("N", 1), cfg["is_log"], DT[cfg.get("dtype", "float32")]
    cid = h64(cfg)
    case = {"kind": "tree", "cfg": cfg}
    support, mass, dlog = O.table(oracle_spec(ps))
    elem = ps["kind"] == "bern_elem"
    nv = len(ps["theta"]) if elem else 1
    wts = [float(i + 1) for i in range(nv)]
    # ---- exact reference ------------------------------------------------------------------
    share = cfg.get("share")  # "object": density is proposal; "param": two objects, one parameter tensor
    if est == "is" and share:
        tmass, tdlog = mass, dlog
    elif est == "is":
        dspec = cfg["dens"]
        if dspec["kind"] == "cbern":
            osp = {"kind": "cbern", "T": ps["T"], "L": ps["L"], "out": ps["out"], "theta": dspec["theta"],
                   "shift": dspec.get("shift", 0.0)}
            tsup, tmass, tdlog = O.table(osp)
        else:
            tsup, tmass, tdlog = O.table(oracle_spec(dict(ps, theta=dspec["theta"])))
            sh = math.exp(dspec.get("shift", 0.0))
            tmass = [m * sh for m in tmass]
        if tsup != support:
            raise HarnessError("importance sampling: target and proposal supports differ")
    else:
        tmass, tdlog = mass, dlog
    gv = [g_value(ps, fs, b, is_log) for b in support]
    dep = fs.get("dep") or 0.0
    tgt_theta = cfg["dens"]["theta"] if est == "is" and not share else ps.get("theta", [])
    factor = 1.0 + dep * sum(tgt_theta)
    gbase = gv
    gv = [[x * factor for x in g] if elem else g * factor for g in gv]
    if elem:
        exp_val = [O.expectation(tmass, [g[i] for g in gv]) for i in range(nv)]
        scal = [sum(w * x for w, x in zip(wts, g)) for g in gv]
    else:
        exp_val = [O.expectation(tmass, gv)]
        scal = gv
    exp_grad = O.grad_expectation(tmass, tdlog, scal)
    if dep and exp_grad:
        # + sum_s P(b_s) d f_theta(b_s) / d theta_j  (the same for every j)
        extra = O.expectation(tmass, [dep * (sum(w * x for w, x in zip(wts, g)) if elem else g) for g in gbase])
        exp_grad = [x + extra for x in exp_grad]
    nontrivial = len(support) > 1 and len({repr(g) for g in gv}) > 1

    cvfn = torch_fn(ps, cs, is_log, dtype) if cs else None
    wt = torch.tensor(wts, dtype=torch.float64)
    stats = {"paths": 0, "bad_support": None}

    def run(ch):
        dist, theta = build_dist(ps, dtype)
        seen = []
        tgt = [theta]

        def func_(b):
            seen.append(b.detach().clone())
            return torch_fn(ps, fs, is_log, dtype, tgt[0])(b)

        func = Guard("func", func_)
        cvg = Guard("cv", cvfn) if cs else None
        params = [theta] if theta is not None else []
        with ScriptedRandom(ch):
            if est == "direct":
                if cs:
                    mu = cv_mean_tensor(ps, dist, cs, support, mass, is_log, dtype)
                    e = E.DirectEstimator(dist, func, N, cvg, mu, is_log)
                else:
                    e = E.DirectEstimator(dist, func, N, is_log=is_log)
            elif est == "is" and share:
                dens = dist if share == "object" else build_dist(ps, dtype, theta=theta)[0]
                e = E.ImportanceSamplingEstimator(dist, func, N, dens, False, is_log)
            elif est == "is":
                dspec = cfg["dens"]
                if dspec["kind"] == "cbern":
                    tp = torch.tensor(dspec["theta"], dtype=dtype, requires_grad=True)
                    dens = CondBernoulliDensity(tp, dspec.get("shift", 0.0))
                else:
                    dens, tp = build_dist(dict(ps, theta=dspec["theta"]), dtype)
                    if dspec.get("shift"):
                        dens = ShiftedDensity(dens, dspec["shift"])
                params = [tp] + params
                tgt[0] = tp
                e = E.ImportanceSamplingEstimator(dist, func, N, dens, False, is_log)
            else:
                e = E.EnumerateEstimator(dist, func, is_log)
            v = e()
        val = v.exp() if is_log else v
        s = (val.double().reshape(-1) * wt).sum()
        if params and s.requires_grad:
            grads = torch.autograd.grad(s, params, allow_unused=True)
            grads = [torch.zeros_like(p) if g is None else g for g, p in zip(grads, params)]
        else:
            grads = [torch.zeros_like(p) for p in params]
        insup = True
        if est != "enum":
            for b in seen:
                insup = insup and bool(dist.support.check(b).all())
        mod = func.modified() or (cvg.modified() if cvg else None)
        return (val.detach().double().reshape(-1).tolist(), [g.double().reshape(-1).tolist() for g in grads],
                insup, tuple(v.shape), [b.tolist() for b in seen][:1], mod)

    Eval = [0.0] * nv
    Egrad = None
    ptot = 0.0
    for ch, res in explore(run):
        stats["paths"] += 1
        _record_tree(ctx, cid, ch)
        if isinstance(res, Exception):
            ctx.violation(cfg_sig(cfg, symptom="raises", type=type(res).__name__),
                          dict(case, choices=ch.choices), {"error": repr(res)[-400:]})
            ctx.case(1)
            return
        val, grads, insup, shape, first, mod = res
        if mod and not stats.get("mod"):
            stats["mod"] = True
            ctx.violation(cfg_sig(cfg, symptom="callback-tensor-modified", which=mod[0], cv=bool(cs)),
                          dict(case, choices=ch.choices), {"before": mod[1], "after": mod[2]})
        if len(val) != nv:
            ctx.violation(cfg_sig(cfg, symptom="wrong-shape"), dict(case, choices=ch.choices),
                          {"shape": list(shape), "expected_numel": nv})
            ctx.case(1)
            return
        if not insup and stats["bad_support"] is None:
            stats["bad_support"] = ch.choices
            ctx.violation(cfg_sig(cfg, symptom="sample-outside-support"), dict(case, choices=ch.choices),
                          {"sample": first})
        p = ch.prob
        ptot += p
        for i in range(nv):
            Eval[i] += p * val[i]
        if Egrad is None:
            Egrad = [[0.0] * len(g) for g in grads]
        for a, g in zip(Egrad, grads):
            for j, x in enumerate(g):
                a[j] += p * x
    ctx.case(stats["paths"])
    ctx.key(("tree", cid), nontrivial=nontrivial)
    ctx.traces += 1
    ctx.count("trees_" + est)
    if not close(ptot, 1.0, 1e-6):
        raise HarnessError(f"path probabilities sum to {ptot}, not 1 ({cfg})")
    bad = [i for i in range(nv) if not close(Eval[i], exp_val[i])]
    if bad:
        ctx.violation(cfg_sig(cfg, symptom="biased-value", cv=bool(cs), N=N),
                      case, {"expected": exp_val, "observed": Eval, "paths": stats["paths"]})
    else:
        ctx.outcome(("v", [round(x, 4) for x in exp_val]))
    # gradients: first parameter block = the distribution the expectation is taken over
    if Egrad is None:
        Egrad = []
    blocks = []
    if est == "is" and share:
        if ps["kind"] != "srswor":
            blocks.append(("density", exp_grad))  # one parameter tensor behind target and proposal
    elif est == "is":
        blocks.append(("density", exp_grad))
        if ps["kind"] != "srswor":
            blocks.append(("proposal", [0.0] * len(ps["theta"])))
    elif ps["kind"] != "srswor":
        blocks.append(("proposal", exp_grad))
    # a class with probability exactly 0 (probs= parameterisation) sits on the boundary of the
    # parameter space: no score-function estimator can see d/d(that probability); only the
    # coordinates of the live classes are compared there (a -inf logit has no influence at all and
    # is compared: exact gradient 0)
    skip = {int(i) for i in (ps.get("masked") or [])} if ps.get("par") == "probs" else set()
    for (name, want), got in zip(blocks, Egrad):
        if len(want) == len(got) and skip:
            want = [w for j, w in enumerate(want) if j not in skip]
            got = [g for j, g in enumerate(got) if j not in skip]
        if len(want) != len(got) or any(not close(a, b) for a, b in zip(want, got)):
            ctx.violation(cfg_sig(cfg, symptom="biased-gradient", wrt=name, cv=bool(cs), N=N),
                          case, {"expected": want, "observed": got, "paths": stats["paths"]})
        else:
            ctx.outcome(("g", name, [round(x, 4) for x in want]))
    if stats["paths"] and len(ctx.samples) < 2:
        ctx.sample({"config": cfg, "paths": stats["paths"], "E_value": Eval, "exact_value": exp_val,
                    "E_grad": Egrad, "exact_grad": exp_grad})


# ---------------------------------------------------------------------------------------
def run_seq(ctx, cfg):
    """Several estimator calls in a row over ONE distribution object (and one control-variate mean
    tensor): "direct", "is" (density is proposal), "again" (the previous estimator object called
    once more).  The draw tree covers the draws of all calls; every call's E[value] and E[grad]
    must be exact (gradients are taken after the last call), and a result kept from an earlier
    call must be unchanged after the later calls."""
    ps, fs, cs, order = cfg["prop"], cfg["f"], cfg.get("cv"), cfg["order"]
    N, is_log, dtype = cfg["N"], cfg["is_log"], DT[cfg.get("dtype", "float32")]
    cid = h64(cfg)
    case = {"kind": "seq", "cfg": cfg}
    support, mass, dlog = O.table(oracle_spec(ps))
    elem = ps["kind"] == "bern_elem"
    nv = len(ps["theta"]) if elem else 1
    wts = [float(i + 1) for i in range(nv)]
    gv = [g_value(ps, fs, b, is_log) for b in support]
    if elem:
        exp_val = [O.expectation(mass, [g[i] for g in gv]) for i in range(nv)]
        scal = [sum(w * x for w, x in zip(wts, g)) for g in gv]
    else:
        exp_val, scal = [O.expectation(mass, gv)], gv
    exp_grad = O.grad_expectation(mass, dlog, scal)
    wt = torch.tensor(wts, dtype=torch.float64)
    cvfn = torch_fn(ps, cs, is_log, dtype) if cs else None
    K = len(order)

    def run(ch):
        dist, theta = build_dist(ps, dtype)
        func = Guard("func", torch_fn(ps, fs, is_log, dtype, theta))
        cvg = Guard("cv", cvfn) if cs else None
        mu = cv_mean_tensor(ps, dist, cs, support, mass, is_log, dtype) if cs else None
        vs, kept, e = [], [], None
        with ScriptedRandom(ch):
            for name in order:
                if name == "direct":
                    e = E.DirectEstimator(dist, func, N, cvg, mu, is_log) if cs else \
                        E.DirectEstimator(dist, func, N, is_log=is_log)
                elif name == "is":
                    e = E.ImportanceSamplingEstimator(dist, func, N, dist, False, is_log)
                v = e()
                vs.append(v)
                kept.append(v.detach().clone())
        changed = [i for i in range(K) if vs[i].shape != kept[i].shape or not torch.equal(vs[i].detach(), kept[i])]
        vals, grads = [], []
        for v in vs:
            val = v.exp() if is_log else v
            s = (val.double().reshape(-1) * wt).sum()
            if theta is not None and s.requires_grad:
                g, = torch.autograd.grad(s, [theta], retain_graph=True, allow_unused=True)
                g = torch.zeros_like(theta) if g is None else g
                grads.append(g.double().reshape(-1).tolist())
            else:
                grads.append([])
            vals.append(val.detach().double().reshape(-1).tolist())
        mod = func.modified() or (cvg.modified() if cvg else None)
        return vals, grads, changed, mod

    Eval = [[0.0] * nv for _ in range(K)]
    Egrad = [None] * K
    paths, flagged = 0, set()
    for ch, res in explore(run):
        paths += 1
        _record_tree(ctx, cid, ch)
        if isinstance(res, Exception):
            ctx.violation(cfg_sig(cfg, symptom="raises", type=type(res).__name__, order=order),
                          dict(case, choices=ch.choices), {"error": repr(res)[-400:]})
            ctx.case(1)
            return
        vals, grads, changed, mod = res
        if changed and "changed" not in flagged:
            flagged.add("changed")
            ctx.violation(cfg_sig(cfg, symptom="earlier-result-changed-by-later-call", order=order),
                          dict(case, choices=ch.choices), {"calls": changed})
        if mod and "mod" not in flagged:
            flagged.add("mod")
            ctx.violation(cfg_sig(cfg, symptom="callback-tensor-modified", which=mod[0], cv=bool(cs), order=order),
                          dict(case, choices=ch.choices), {"before": mod[1], "after": mod[2]})
        p = ch.prob
        for k in range(K):
            if len(vals[k]) != nv:
                ctx.violation(cfg_sig(cfg, symptom="wrong-shape", order=order), dict(case, choices=ch.choices), None)
                return
            for i in range(nv):
                Eval[k][i] += p * vals[k][i]
            if Egrad[k] is None:
                Egrad[k] = [0.0] * len(grads[k])
            for j, x in enumerate(grads[k]):
                Egrad[k][j] += p * x
    ctx.case(paths)
    ctx.key(("seq", cid), nontrivial=len(support) > 1)
    ctx.traces += 1
    ctx.count("trees_seq")
    skip = {int(i) for i in (ps.get("masked") or [])} if ps.get("par") == "probs" else set()
    if skip:  # probability exactly 0: boundary coordinate, see run_tree
        exp_grad = [w for j, w in enumerate(exp_grad) if j not in skip]
        Egrad = [[g for j, g in enumerate(eg or []) if j not in skip] for eg in Egrad]
    for k in range(K):
        if any(not close(a, b) for a, b in zip(Eval[k], exp_val)):
            ctx.violation(cfg_sig(cfg, symptom="biased-value", order=order, call=k, cv=bool(cs), N=N), case,
                          {"expected": exp_val, "observed": Eval[k]})
        if ps["kind"] != "srswor" and (len(Egrad[k] or []) != len(exp_grad) or
                                        any(not close(a, b) for a, b in zip(Egrad[k], exp_grad))):
            ctx.violation(cfg_sig(cfg, symptom="biased-gradient", wrt="proposal", order=order, call=k, cv=bool(cs), N=N),
                          case, {"expected": exp_grad, "observed": Egrad[k]})
    ctx.outcome(("seq", order, [round(x, 4) for x in exp_val]))


# ---------------------------------------------------------------------------------------
def _menu_pairs(shape, dtype, device, label, ch):
    """uniform seam for batches: every element independently from {0, 1-2^-24}"""
    n = 1
    for s in shape:
        n *= s
    vals = [(0.0, ONE_M)[ch.choose(2, f"{label}[{i}]")] for i in range(n)]
    return torch.tensor(vals, dtype=torch.float64).to(dtype).view(shape)


def run_imh(ctx, cfg):
    """Metropolis-Hastings with proposal == target: whatever the uniform draws are, every
    proposal is accepted, so the result is the plain average of f over the post-burn-in
    proposals - with a drawn and with a handed-in starting point."""
    ps, fs = cfg["prop"], cfg["f"]
    N, burn, is_log, dtype = cfg["N"], cfg["burn_in"], cfg["is_log"], DT[cfg.get("dtype", "float32")]
    init, twin = cfg["init"], cfg["twin"]
    cid = h64(cfg)
    case = {"kind": "imh", "cfg": cfg}
    support, mass, _ = O.table(oracle_spec(ps))
    elem = ps["kind"] == "bern_elem"
    nv = len(ps["theta"]) if elem else 1
    fn = torch_fn(ps, fs, is_log, dtype)
    menu = {"quick": MENU_QUICK, "full": MENU_FULL, "ends": _menu_pairs}[cfg["menu"]]
    sig0 = {"api": "imh", "proposal": ps["kind"], "is_log": is_log, "initial_sample": init != "drawn"}

    def run(ch):
        with torch.no_grad():
            dist, _ = build_dist(ps, dtype)
            dens = build_dist(ps, dtype)[0] if twin else dist
        seen = []

        def func(b):
            seen.append(b.clone())
            return fn(b)

        kw = {}
        if init != "drawn":
            x = support_tensor(ps, [support[cfg["init_index"]]], dtype)
            if ps["kind"] == "srswor":
                x = x.float()
            kw["initial_sample"] = x if init == "given1" else x[0]
        with ScriptedRandom(ch, uniform=menu) as sr:
            try:
                e = E.IndependentMetropolisHastingsEstimator(dist, func, N, dens, burn, is_log=is_log, **kw)
            except Exception as ex:  # noqa: BLE001
                return ("ctor", ex)
            v = e()
            draws = [c for c in sr.calls if c[0] in ("bernoulli", "multinomial")]
            unif = [c[2] for c in sr.calls if c[0] == "uniform"]
        return ("ok", v, draws, seen, dist, unif)

    paths = 0
    for ch, res in explore(run):
        paths += 1
        _record_tree(ctx, cid, ch)
        if isinstance(res, Exception) or res[0] == "ctor":
            ex = res if isinstance(res, Exception) else res[1]
            where = "constructor" if not isinstance(res, Exception) else "call"
            ctx.violation(dict(sig0, symptom="raises", type=type(ex).__name__, where=where),
                          dict(case, choices=ch.choices), {"error": repr(ex)[-400:]})
            break
        _, v, draws, seen, dist, unif = res
        # the chain the estimator must have followed: the proposals themselves, in order
        if len(seen) != N - burn:
            ctx.violation(dict(sig0, symptom="wrong-number-of-kept-samples"), dict(case, choices=ch.choices),
                          {"kept": len(seen), "expected": N - burn})
            break
        insup = all(bool(dist.support.check(b).all()) for b in seen)
        if not insup:
            ctx.violation(dict(sig0, symptom="sample-outside-support"), dict(case, choices=ch.choices),
                          {"samples": [b.tolist() for b in seen]})
        # proposals drawn during the chain: the last N sample() calls
        prop = _proposals_from_calls(ps, draws, N, init == "drawn")
        if prop is None:
            raise HarnessError(f"cannot reconstruct proposals from seam log: {draws}")
        vals = [g_value(ps, fs, b, is_log) for b in prop]
        obs = v.double().reshape(-1).tolist()
        if len(obs) != nv:
            ctx.violation(dict(sig0, symptom="wrong-shape"), dict(case, choices=ch.choices), {"shape": list(v.shape)})
            break
        ok = True
        for i in range(nv):
            chain = [math.log(x[i] if elem else x) if is_log else (x[i] if elem else x) for x in vals]
            want = O.imh_average(chain, burn, is_log)
            if not close(obs[i], want):
                ok = False
                ctx.violation(dict(sig0, symptom="not-plain-average", burn_in=burn), dict(case, choices=ch.choices),
                              {"expected": want, "observed": obs[i], "proposals": prop,
                               "uniform": unif})
                break
        if v.requires_grad:
            ctx.violation(dict(sig0, symptom="result-carries-gradient"), dict(case, choices=ch.choices), None)
        if ok:
            ctx.outcome(("imh", [round(x, 4) for x in obs]))
    ctx.case(paths)
    ctx.key(("imh", cid), nontrivial=len(support) > 1)
    ctx.traces += 1
    ctx.count("trees_imh")
    if len(ctx.samples) < 3 and cfg["init"] == "drawn":
        ctx.sample({"config": cfg, "paths": paths})


def _proposals_from_calls(ps, draws, N, drawn_init):
    """support elements proposed at chain steps 1..N, from the seam's log of answered draws"""
    k = ps["kind"]
    if k == "srswor":
        per = ps["out"]  # one bernoulli call per position
        groups = [draws[i: i + per] for i in range(0, len(draws), per)]
        samples = [tuple(int(c[2][0]) if isinstance(c[2], list) else int(c[2]) for c in g) for g in groups]
    elif k in ("bern_joint", "bern_elem"):
        samples = [tuple(int(x) for x in _flat(c[2])) for c in draws]
    else:
        samples = [int(_flat(c[2])[0]) for c in draws]
    want = N + (1 if drawn_init else 0)
    if len(samples) != want:
        return None
    return samples[-N:]


def _flat(x):
    if isinstance(x, list):
        out = []
        for y in x:
            out.extend(_flat(y))
        return out
    return [x]
